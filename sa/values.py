"""Abstract value domain of the checker's own interpreter (E2/E3). Nothing here touches pytoniq_core at run time."""
import itertools


class Fail(Exception):
    """analysis cannot proceed (unsupported construct / budget) -> ANALYSIS-ERROR, never a violation"""


class Mismatch(Exception):
    """the interpreted code disagrees with the schema / specification it is checked against"""


class ReturnEx(Exception):
    def __init__(self, v):
        self.v = v


class ContinueEx(Exception):
    pass


class BreakEx(Exception):
    pass


class RaiseEx(Exception):
    """the interpreted program raises"""
    def __init__(self, kind='Exception', what='', node=None):
        self.kind, self.what, self.node = kind, what, node

    def __str__(self):
        return f'{self.kind}({self.what})'


# ------------------------------------------------------------------ polynomials over named atoms
class Poly:
    __slots__ = ('t',)

    def __init__(self, t=None):
        self.t = {k: v for k, v in (t or {}).items() if v != 0}

    @staticmethod
    def const(c):
        return Poly({(): c})

    @staticmethod
    def var(n):
        return Poly({(n,): 1})

    def __add__(self, o):
        r = dict(self.t)
        for k, v in o.t.items():
            r[k] = r.get(k, 0) + v
        return Poly(r)

    def __neg__(self):
        return Poly({k: -v for k, v in self.t.items()})

    def __sub__(self, o):
        return self + (-o)

    def __mul__(self, o):
        r = {}
        for k1, v1 in self.t.items():
            for k2, v2 in o.t.items():
                k = tuple(sorted(k1 + k2))
                r[k] = r.get(k, 0) + v1 * v2
        return Poly(r)

    def is_const(self):
        return all(k == () for k in self.t)

    def cval(self):
        return self.t.get((), 0)

    def atoms(self):
        return {a for k in self.t for a in k}

    def divide(self, o):
        """exact division by a single-monomial polynomial -> Poly or None"""
        if len(o.t) != 1:
            return None
        (mk, mc), = o.t.items()
        r = {}
        for k, v in self.t.items():
            kk = list(k)
            for x in mk:
                if x in kk:
                    kk.remove(x)
                else:
                    return None
            if v % mc:
                return None
            r[tuple(kk)] = v // mc
        return Poly(r)

    def subst(self, env):
        """evaluate with env: atom -> int (all atoms must be bound)"""
        tot = 0
        for k, v in self.t.items():
            m = v
            for a in k:
                m *= env[a]
            tot += m
        return tot

    def __eq__(self, o):
        return isinstance(o, Poly) and self.t == o.t

    def __hash__(self):
        return hash(frozenset(self.t.items()))

    def __repr__(self):
        if not self.t:
            return '0'
        out = []
        for k, v in sorted(self.t.items(), key=lambda kv: (len(kv[0]), kv[0])):
            m = '*'.join(k)
            out.append(f'{v}' if not k else (m if v == 1 else f'{v}*{m}'))
        return ' + '.join(out)


# ------------------------------------------------------------------ scalar values
class K:
    """known Python constant"""
    __slots__ = ('v',)

    def __init__(self, v):
        self.v = v

    def __repr__(self):
        return f'K({self.v!r})'


_ctr = itertools.count(1)


class Sym:
    """opaque unknown (not known to be an int). meta: ty ('bytes'|'str'|'bool'|...), n (length) ..."""
    def __init__(self, name, info=None, **meta):
        self.name = name
        self.info = info
        self.meta = meta
        self.uid = next(_ctr)
        self.key = meta.pop('key', None)
        if isinstance(meta.get('lo'), int) and isinstance(meta.get('hi'), int):
            self.bounds = (meta['lo'], meta['hi'])       # an integer known to lie in [lo, hi] (the scenario's premise, e.g. "fits the field")

    def __repr__(self):
        return f'Sym({self.name})'


class PInt:
    """symbolic integer as a polynomial over named atoms"""
    __slots__ = ('p',)

    def __init__(self, p):
        self.p = p

    def __repr__(self):
        return f'PInt({self.p})'


def atom(name):
    return PInt(Poly.var(name))


class PBits:
    """partially known bit string; view in {'bits','str','bytes'}"""
    def __init__(self, pat, view='bits'):
        self.pat = pat
        self.view = view

    def known(self):
        return '?' not in self.pat

    def __repr__(self):
        return f'PBits({self.pat},{self.view})'


class Term:
    """uninterpreted application: structured symbolic value"""
    def __init__(self, op, *a):
        self.op, self.a = op, tuple(a)

    def __repr__(self):
        return f'{self.op}({", ".join(map(vrepr, self.a))})'


class Cond:
    """undecided boolean with a canonical key; pol False means the negation of key"""
    def __init__(self, key, pol=True, desc=''):
        self.key, self.pol, self.desc = key, pol, desc

    def __repr__(self):
        return ('' if self.pol else 'not ') + (self.desc or str(self.key))


def vrepr(v):
    if isinstance(v, K):
        return repr(v.v)
    if isinstance(v, PInt):
        return repr(v.p)
    if isinstance(v, tuple):
        return '(' + ', '.join(map(vrepr, v)) + ')'
    if isinstance(v, list):
        return '[' + ', '.join(map(vrepr, v)) + ']'
    if isinstance(v, ListV):
        return '[' + ', '.join(map(vrepr, v.items)) + ']'
    if isinstance(v, Sym):
        return v.name
    return repr(v)


# ------------------------------------------------------------------ containers and objects
class ListV:
    def __init__(self, items, tup=False):
        self.items = list(items)
        self.tup = tup

    def __repr__(self):
        return f'ListV({self.items})'


class DictV:
    def __init__(self, d=None):
        self.d = d if d is not None else {}     # key: python constant or value-key -> value
        self.keyobj = {}                         # key -> original key value

    def __repr__(self):
        return f'DictV({list(self.d)})'


class StopIter(Exception):
    """python-level signal: an abstract iterator is exhausted"""


class IterV:
    """an iterator object: a position in a (live) list of abstract values, or a wrapped python generator of abstract values"""
    not_none = True

    def __init__(self, items=None, gen=None):
        self.items, self.pos, self.gen = items, 0, gen

    def pull(self):
        if self.gen is not None:
            try:
                return next(self.gen)
            except StopIteration:
                raise StopIter()
        if self.pos >= len(self.items):
            raise StopIter()
        self.pos += 1
        return self.items[self.pos - 1]


class SetV:
    def __init__(self, items=None):
        self.items = dict.fromkeys(items or [])


class Inst:
    def __init__(self, cls, native=None):
        self.cls = cls
        self.attrs = {}
        self.native = native       # model object of a library base class (e.g. BA for bitarray subclasses)

    def __repr__(self):
        return f'<inst {self.cls.name if self.cls else "?"}>'


class Bound:
    def __init__(self, recv, func):
        self.recv, self.func = recv, func


class SuperProxy:
    def __init__(self, inst, after):
        self.inst, self.after = inst, after


class Native:
    """checker-side model of a callable: fn(interp, args, kw, node) -> value"""
    def __init__(self, fn, name=''):
        self.fn, self.name = fn, name

    def __repr__(self):
        return f'<native {self.name}>'


class Builtin:
    def __init__(self, name):
        self.name = name

    def __repr__(self):
        return f'<builtin {self.name}>'


class Ext:
    """reference to something outside the package (library module / function / class), by dotted name"""
    def __init__(self, dotted):
        self.dotted = dotted

    def __repr__(self):
        return f'<ext {self.dotted}>'


class SliceV:
    """a slice object with abstract bounds"""
    def __init__(self, lo, hi, st=None):
        self.lo, self.hi, self.st = lo, hi, st if st is not None else K(None)

    def abs_attr(self, it, a, n):
        return {'start': self.lo, 'stop': self.hi, 'step': self.st}.get(a)

    def abs_isinstance(self, it, ty):
        return getattr(ty, 'name', None) == 'slice'


class ExcV:
    """exception instance value"""
    def __init__(self, kind, args=()):
        self.kind, self.args = kind, args


# ------------------------------------------------------------------ bit containers (model of bitarray)
class Seg:
    """n bits. kind 'k': val = '0101' pattern; 'u'/'i': val = abstract int (big-endian unsigned / two's complement);
    'b': val = abstract bytes (n = 8*len); '?': unknown bits, val = provenance or None"""
    __slots__ = ('n', 'kind', 'val')

    def __init__(self, n, kind, val=None):
        self.n, self.kind, self.val = n, kind, val

    def __repr__(self):
        if self.kind == 'k':
            return f"'{self.val}'"
        return f'{self.kind}{self.n}<{vrepr(self.val) if self.val is not None else ""}>'


_SEG_BASES = {}


class BA:
    """model of bitarray.bitarray: a list of segments with concrete lengths"""
    def __init__(self, segs=None):
        self.segs = []
        for s in segs or []:
            self._push(s)

    def _push(self, s):
        if s.n == 0:
            return
        if s.kind == 'k' and self.segs and self.segs[-1].kind == 'k':
            self.segs[-1] = Seg(self.segs[-1].n + s.n, 'k', self.segs[-1].val + s.val)
            return
        if s.kind == '?' and self.segs and self.segs[-1].kind == '?':
            # two adjacent pieces cut out of one segment, in order and contiguous, are that stretch of the segment again
            a, b = self.segs[-1].val, s.val
            if isinstance(a, Term) and isinstance(b, Term) and a.op == b.op == 'bitslice' and a.a[0] is b.a[0] and a.a[2].v == b.a[1].v:
                base = a.a[0]
                lo, hi = a.a[1].v, b.a[2].v
                kind, n = base.op[4], int(base.op[5:])
                if lo == 0 and hi == n:
                    self.segs[-1] = Seg(n, kind, base.a[0])
                else:
                    self.segs[-1] = Seg(hi - lo, '?', Term('bitslice', base, K(lo), K(hi)))
                return
        self.segs.append(Seg(s.n, s.kind, s.val))

    def __len__(self):
        return sum(s.n for s in self.segs)

    def copy(self):
        return BA(self.segs)

    def known(self):
        return all(s.kind == 'k' for s in self.segs)

    def pattern(self):
        return ''.join(s.val if s.kind == 'k' else '?' * s.n for s in self.segs)

    def slice(self, lo, hi):
        n = len(self)
        lo = 0 if lo is None else (max(0, n + lo) if lo < 0 else min(lo, n))
        hi = n if hi is None else (max(0, n + hi) if hi < 0 else min(hi, n))
        out = BA()
        pos = 0
        for s in self.segs:
            a, b = max(lo, pos), min(hi, pos + s.n)
            if a < b:
                if a == pos and b == pos + s.n:
                    out._push(s)
                elif s.kind == 'k':
                    out._push(Seg(b - a, 'k', s.val[a - pos:b - pos]))
                elif s.kind == '?' and isinstance(s.val, Term) and s.val.op == 'bitslice':
                    base, off = s.val.a[0], s.val.a[1].v          # a piece of a piece: express it in the original segment
                    out._push(Seg(b - a, '?', Term('bitslice', base, K(off + a - pos), K(off + b - pos))))
                else:
                    key = (id(s.val), s.kind, s.n) if s.val is not None else None
                    base = _SEG_BASES.get(key) if key else None
                    if base is None:
                        base = Term(f'seg_{s.kind}{s.n}', s.val)
                        if key:
                            _SEG_BASES[key] = base        # the Term keeps s.val alive, so the id stays valid
                    out._push(Seg(b - a, '?', Term('bitslice', base, K(a - pos), K(b - pos))))
            pos += s.n
        return out

    def delete(self, lo, hi):
        n = len(self)
        left, right = self.slice(0, lo), self.slice(hi, n)
        self.segs = []
        for s in left.segs + right.segs:
            self._push(s)

    def extend(self, other):
        for s in other.segs:
            self._push(s)

    def bit(self, i):
        n = len(self)
        if i < 0:
            i += n
        if not 0 <= i < n:
            raise RaiseEx('IndexError', 'bitarray index out of range')
        s = self.slice(i, i + 1).segs[0]
        if s.kind == 'k':
            return K(int(s.val))
        if s.n == 1 and s.kind in ('u',):
            return s.val
        return Term('bit', s.val if s.val is not None else Sym('bits'))

    def desc(self):
        return tuple(repr(s) for s in self.segs)

    def __repr__(self):
        return f'BA{self.segs}'
