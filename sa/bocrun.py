"""Bridges between specification-side DAGs (bocspec.SCell) and cells built by interpreting the package's constructor."""
from .values import *
from . import cellmodel as cm
from .bocspec import SCell, Stream


def build(it, sc, memo=None):
    """interpret Cell(bits, refs, type) bottom-up for a spec DAG; shared SCells -> shared objects"""
    memo = {} if memo is None else memo
    if id(sc) in memo:
        return memo[id(sc)]
    kids = [build(it, r, memo) for r in sc.refs]
    bits = cm.tvm_bits(it, BA([Seg(len(sc.bits), 'k', sc.bits)] if sc.bits else []))
    t = int(sc.bits[:8], 2) if sc.exotic else -1
    c = cm.new_cell(it, bits, kids, t)
    memo[id(sc)] = c
    return c


def skey(sc):
    return (sc.bits, bool(sc.exotic), tuple(skey(r) for r in sc.refs))


def ckey(it, c):
    """structure key of an interpreted cell / slice / builder-like object"""
    bits = it.getattr(c, 'bits')
    nat = bits.native if isinstance(bits, Inst) else bits
    if not isinstance(nat, BA) or not nat.known():
        return ('?', repr(nat))
    t = c.attrs.get('type_')
    refs = it.getattr(c, 'refs').items
    off = c.attrs.get('ref_offset')
    if isinstance(off, K):
        refs = refs[off.v:]
    return (nat.pattern(), isinstance(t, K) and t.v != -1, tuple(ckey(it, r) for r in refs))


def n_distinct(roots):
    seen = set()

    def walk(c):
        k = skey(c)
        if k in seen:
            return
        seen.add(k)
        for r in c.refs:
            walk(r)
    for r in roots:
        walk(r)
    return len(seen)


def decoded_key(dec, i, memo=None):
    """structure key of cell i of a strict_decode result (data must be concrete)"""
    memo = {} if memo is None else memo
    if i in memo:
        return memo[i]
    d1, d2, data, refs = dec['cells'][i]
    if any(not isinstance(x, int) for x in data):
        bits = None
    else:
        raw = ''.join(format(x, '08b') for x in data)
        if d2 % 2:
            raw = raw.rstrip('0')[:-1]
        bits = raw
    k = (bits, bool(d1 & 8), tuple(decoded_key(dec, r, memo) for r in refs))
    memo[i] = k
    return k


# ---------------------------------------------------------------- DAG fixtures (specification side)
def bits_of(seed, n):
    import hashlib
    out = ''
    i = 0
    while len(out) < n:
        out += ''.join(format(b, '08b') for b in hashlib.sha256(f'{seed}:{i}'.encode()).digest())
        i += 1
    return out[:n]


def dags(thorough=False):
    out = {}
    out['single-empty'] = [SCell('')]
    out['single-13bits'] = [SCell(bits_of('a', 13))]
    out['single-1023bits'] = [SCell(bits_of('b', 1023))]
    l1 = SCell(bits_of('leaf', 20))
    out['chain3'] = [SCell(bits_of('r', 8), [SCell(bits_of('m', 9), [l1])])]
    shared = SCell(bits_of('shared', 40))
    out['diamond'] = [SCell(bits_of('d', 16), [SCell(bits_of('x', 7), [shared]), SCell(bits_of('y', 7), [shared])])]
    # a shared cell that ends the cell data of a 64..127-byte bag: its doubled index entry (cache bits) is in the upper half of a one-byte field
    sh2 = SCell(bits_of('shared2', 80))
    out['diamond-payload100'] = [SCell(bits_of('dp', 16), [SCell(bits_of('dx', 300), [sh2]), SCell(bits_of('dy', 296), [sh2])])]
    out['dup-leaves'] = [SCell(bits_of('d2', 16), [SCell(bits_of('same', 24)), SCell(bits_of('same', 24))])]
    # cells whose stored data bytes coincide although their bit strings differ (the completion tag of one is data of the other): `1` is
    # stored as C0 with d2 = 1, `11000000` as C0 with d2 = 2; likewise 7 + tag bits against a whole byte, and the same under references
    twin_leaf = [SCell('1'), SCell('11000000'), SCell('1010101'), SCell('10101011'), SCell(''), SCell('1' + '0' * 7 + '1'), SCell('1' + '0' * 7 + '1' + '1' + '0' * 6)]
    out['padded-twins'] = [SCell('0110', [SCell('1', [twin_leaf[0], twin_leaf[1]]), SCell('11000000', [twin_leaf[1], twin_leaf[0]]),
                                          SCell('', [twin_leaf[2], twin_leaf[3], twin_leaf[5], twin_leaf[6]]), twin_leaf[4]])]
    x = SCell(bits_of('deep', 30))
    out['shared-later'] = [SCell(bits_of('r2', 5), [x, SCell(bits_of('y2', 5), [x])])]
    # the largest possible cell: 1023 data bits and four references (128 data bytes + 2 descriptor bytes + 4 indices)
    out['full-4refs'] = [SCell(bits_of('full', 1023), [SCell(bits_of(f'f{i}', 3 + i)) for i in range(4)])]
    out['nearfull-4refs'] = [SCell(bits_of('nfull', 1017), [SCell(bits_of(f'g{i}', 1016 + i), [SCell(bits_of(f'h{j}', j)) for j in range(4)]) for i in range(4)])]
    out['four-refs'] = [SCell('', [SCell(bits_of(f'c{i}', 8 * i + 1)) for i in range(4)])]
    # payload size around the one/two-byte boundary of off_bytes
    for tot, tag in ((255, 'payload255'), (256, 'payload256')):
        k = tot - (2 + 128 + 1) - 2
        out[tag] = [SCell(bits_of('big', 1023), [SCell(bits_of('t', 8 * k))])]
    # between 128 and 255 bytes: doubled index entries (cache bits) need two bytes
    out['payload200'] = [SCell(bits_of('p200', 1023), [SCell(bits_of('q200', 8 * 65))])]
    # exotic: merkle proof over a pruned branch
    from .rules.C02 import exotic_data
    pr = exotic_data(1, 1)[:34] + bytes([0, 5])
    pruned = SCell(''.join(format(b, '08b') for b in pr), [], exotic=True, mask=1)
    proof_data = bytes([3]) + pr[2:34] + pr[34:36]
    out['merkle-proof'] = [SCell(''.join(format(b, '08b') for b in proof_data), [pruned], exotic=True, mask=0)]
    out['ordinary-over-pruned'] = [SCell(bits_of('op', 10), [pruned, SCell(bits_of('ol', 3))], mask=1)]

    # pruned branches of every level mask (gaps included: 2, 4, 5, 6 arise when a proof prunes inside a Merkle update / nested proofs);
    # an ordinary cell above them carries the union of their masks
    def pruned_of(m):
        pc = bin(m).count('1')
        hashes = bits_of(f'prh{m}', 256 * pc)
        depths = ''.join(format(3 + i, '016b') for i in range(pc))      # small stored depths: the parents stay far below the depth limit
        return SCell(format(1, '08b') + format(m, '08b') + hashes + depths, [], exotic=True, mask=m)
    out['pruned-masks-2456'] = [SCell(bits_of('pm1', 11), [pruned_of(2), pruned_of(4), pruned_of(5), pruned_of(6)], mask=7)]
    out['pruned-masks-37'] = [SCell(bits_of('pm2', 12), [pruned_of(3), SCell(bits_of('pm3', 4), [pruned_of(7)], mask=7)], mask=7)]

    def tree(depth, fan, tag):
        cnt = [0]

        def mk(d):
            cnt[0] += 1
            me = cnt[0]
            return SCell(bits_of(f'{tag}{me}', 9 + me % 7), [mk(d - 1) for _ in range(fan)] if d else [])
        return mk(depth)
    out['tree85'] = [tree(3, 4, 't85')]
    out['tree341'] = [tree(4, 4, 't341')]       # 341 cells: two-byte cell indices
    # more than 65 536 bytes of cell data: three-byte offsets (six with doubled index entries), and everything that works on the bag in blocks
    # (checksums, copies) crosses a 64 KiB boundary - 520 of the largest cells
    nbig = 520
    bigc = [SCell(bits_of(f'k70:{i}', 1023)) for i in range(nbig)]
    for i in range(nbig):
        bigc[i].refs = [bigc[j] for j in range(4 * i + 1, min(4 * i + 5, nbig))]
    out['payload70k'] = [bigc[0]]
    # exactly 255 / 256 / 257 distinct cells: 4-ary heap, content = own index
    for n in (255, 256, 257):
        cells = [SCell(format(i, '016b')) for i in range(n)]
        for i in range(n):
            cells[i].refs = [cells[j] for j in range(4 * i + 1, min(4 * i + 5, n))]
        out[f'heap{n}'] = [cells[0]]
    return out


def stream_of(v):
    if isinstance(v, K) and isinstance(v.v, (bytes, bytearray)):
        return Stream(list(v.v))
    return None
