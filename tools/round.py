"""takes the output of one seeding / benign agent (/tmp/<round>/<pid>/out/<k>) into /verif/seeded or /verif/benign via seedeval / benigneval and removes the agent's worktree.
usage: round.py seed <rounddir> <pid> <first index>      e.g. round.py seed /tmp/r5 C06 9   -> seeded/C06-9, C06-10
       round.py benign <rounddir> <pid> <first index>    e.g. round.py benign /tmp/b2 C06 4 -> benign/C06-b4..b6"""
import os, subprocess, sys
VERIF = os.path.dirname(os.path.dirname(os.path.abspath(__file__)))
kind, rd, pid, first = sys.argv[1], sys.argv[2], sys.argv[3], int(sys.argv[4])
wt = f'{rd}/{pid}/wt'
if os.path.exists(wt):
    subprocess.run(f'git -C /repo worktree remove --force {wt}', shell=True)
head = subprocess.run('git -C /repo rev-parse --short HEAD', shell=True, capture_output=True, text=True).stdout.strip()
k = 0
while os.path.exists(f'{rd}/{pid}/out/{k + 1}/patch.diff'):
    src = f'{rd}/{pid}/out/{k + 1}'
    if not os.path.exists(f'{src}/base.txt'):
        open(f'{src}/base.txt', 'w').write(head + '\n')
    name = f'{pid}-{first + k}' if kind == 'seed' else f'{pid}-b{first + k}'
    tool = 'seedeval.py' if kind == 'seed' else 'benigneval.py'
    subprocess.run(['/venv/bin/python', os.path.join(VERIF, 'tools', tool), src, pid, name])
    k += 1
