"""Symbolic byte strings with concrete layout: a Rope is a sequence of parts, each of a known byte length - constant bytes,
or an opaque value (Sym / Term) standing for that many unknown bytes.  Indexing, slicing, concatenation, length and
equality are decided on the layout; the content of opaque parts is never looked at.  Used wherever the package builds or
takes apart byte layouts (friendly addresses, TL frames, ADNL packets, signed payloads)."""
import ast
from .values import *


def _nbytes(it, v):
    from . import models
    if isinstance(v, Rope):
        return v.n
    r = models.bytes_len(it, v)
    if isinstance(r, K):
        return r.v
    return None


class Rope:
    def __init__(self, parts):
        """parts: list of (value, nbytes); value is K(bytes) or an opaque abstract value"""
        out = []
        for v, n in parts:
            if n == 0:
                continue
            if isinstance(v, Rope):
                for p in v.parts:
                    self._push(out, p)
            else:
                self._push(out, (v, n))
        self.parts = out
        self.n = sum(n for _, n in out)

    @staticmethod
    def _push(out, p):
        v, n = p
        if isinstance(v, K) and out and isinstance(out[-1][0], K):
            out[-1] = (K(bytes(out[-1][0].v) + bytes(v.v)), out[-1][1] + n)
        else:
            out.append((v, n))

    @staticmethod
    def of(it, v):
        """abstract value -> Rope, or None when its length is unknown"""
        if isinstance(v, Rope):
            return v
        if isinstance(v, K) and isinstance(v.v, (bytes, bytearray)):
            return Rope([(K(bytes(v.v)), len(v.v))])
        if isinstance(v, Term) and v.op == 'cat':
            parts = []
            for p in v.a:
                r = Rope.of(it, p)
                if r is None:
                    return None
                parts += r.parts
            return Rope(parts)
        n = _nbytes(it, v)
        if n is None:
            return None
        return Rope([(v, n)])

    def simplify(self):
        if not self.parts:
            return K(b'')
        if len(self.parts) == 1:
            return self.parts[0][0]
        return self

    def concrete(self):
        return all(isinstance(v, K) for v, _ in self.parts)

    def __repr__(self):
        return 'Rope[' + ' | '.join(f'{vrepr(v) if not isinstance(v, K) else v.v.hex()}:{n}' for v, n in self.parts) + ']'

    # ---- hooks used by the interpreter
    def abs_key(self):
        return ('rope', repr(self))

    def abs_len(self, it):
        return K(self.n)

    def abs_truth(self, it):
        return self.n > 0

    def abs_isinstance(self, it, ty):
        nm = getattr(ty, 'name', None)
        if nm in ('bytes',):
            return True
        if nm in ('str', 'int', 'tuple', 'list', 'dict', 'bytearray', 'bool'):
            return False
        return False

    def _norm(self, i, dflt):
        if i is None:
            return dflt
        if i < 0:
            i += self.n
        return min(max(i, 0), self.n)

    def cut(self, it, lo, hi):
        out = []
        pos = 0
        for v, n in self.parts:
            a, b = max(lo, pos), min(hi, pos + n)
            if a < b:
                if a == pos and b == pos + n:
                    out.append((v, n))
                elif isinstance(v, K):
                    out.append((K(v.v[a - pos:b - pos]), b - a))
                else:
                    out.append((it.getslice(v, K(a - pos), K(b - pos), K(None), None) if isinstance(v, Sym) and v.meta.get('n') is not None
                                else Term('bslice', v, K(a - pos), K(b - pos)), b - a))
            pos += n
        return Rope(out)

    def abs_slice(self, it, lo, hi, st, node):
        if not all(isinstance(x, K) for x in (lo, hi, st)) or st.v not in (None, 1):
            if isinstance(st, K) and st.v == -1 and isinstance(lo, K) and lo.v is None and isinstance(hi, K) and hi.v is None:
                if self.concrete():
                    return K(b''.join(v.v for v, _ in self.parts)[::-1])
                return Term('reversed_bytes', self.simplify())
            raise Fail(f'rope slice with symbolic bounds {lo!r}:{hi!r}')
        a, b = self._norm(lo.v, 0), self._norm(hi.v, self.n)
        return self.cut(it, a, max(a, b)).simplify()

    def abs_item(self, it, i, node):
        if not (isinstance(i, K) and isinstance(i.v, int)):
            raise Fail('rope index not constant')
        k = i.v + self.n if i.v < 0 else i.v
        if not 0 <= k < self.n:
            raise RaiseEx('IndexError', 'index out of range')
        pos = 0
        for v, n in self.parts:
            if pos <= k < pos + n:
                if isinstance(v, K):
                    return K(v.v[k - pos])
                return Sym(f'byte{k - pos}({vrepr(v)[:30]})', ty='int', key=('byte', it.vkey(v), k - pos))
            pos += n

    def abs_binop(self, it, op, a, b, reflected):
        if not isinstance(op, ast.Add):
            return None
        ra, rb = Rope.of(it, a), Rope.of(it, b)
        if ra is None or rb is None:
            return None
        return Rope(ra.parts + rb.parts).simplify()

    def abs_cmp(self, it, op, a, b, node):
        if not isinstance(op, (ast.Eq, ast.NotEq)):
            return None
        ra, rb = Rope.of(it, a), Rope.of(it, b)
        if ra is None or rb is None:
            return None
        r = rope_eq(it, ra, rb)
        if r is None:
            return None
        return K(r if isinstance(op, ast.Eq) else not r)

    def abs_attr(self, it, a, node):
        if a == 'hex':
            return Native(lambda it_, args, kw, n: K(b''.join(v.v for v, _ in self.parts).hex()) if self.concrete() else Term('hex', self), 'bytes.hex')
        if a == 'decode':
            return Native(lambda it_, args, kw, n: Term('decode', self), 'bytes.decode')
        return None

    def abs_iter(self, it):
        out = []
        for k in range(self.n):
            out.append(self.abs_item(it, K(k), None))
        return out


def rope_eq(it, ra, rb):
    """True / False / None"""
    if ra.n != rb.n:
        return False
    # align on common boundaries
    bounds = sorted({0, ra.n} | set(_bounds(ra)) | set(_bounds(rb)))
    unk = False
    for lo, hi in zip(bounds, bounds[1:]):
        pa, pb = ra.cut(it, lo, hi).parts, rb.cut(it, lo, hi).parts
        (va, _), (vb, _) = pa[0], pb[0]
        if isinstance(va, K) and isinstance(vb, K):
            if va.v != vb.v:
                return False
        elif repr(it.vkey(va)) == repr(it.vkey(vb)):
            continue
        else:
            unk = True
    return None if unk else True


def _bounds(r):
    pos = 0
    out = []
    for _, n in r.parts:
        pos += n
        out.append(pos)
    return out


def install(it):
    """make byte-string concatenation in this interpreter produce Ropes whenever all lengths are known"""
    orig_concat = it.concat

    def concat(a, b):
        def bytesy(v):
            return isinstance(v, Rope) or (isinstance(v, K) and isinstance(v.v, (bytes, bytearray))) or \
                (isinstance(v, Sym) and v.meta.get('ty') == 'bytes') or (isinstance(v, Term) and _nbytes(it, v) is not None)
        if bytesy(a) and bytesy(b) and not (isinstance(a, K) and isinstance(b, K)):
            ra, rb = Rope.of(it, a), Rope.of(it, b)
            if ra is not None and rb is not None:
                return Rope(ra.parts + rb.parts).simplify()
        return orig_concat(a, b)
    it.concat = concat
    it.ROPES = True
    return it
