"""Specification side for dictionaries (C09/C10): the canonical TON Hashmap / HashmapAug encoder, transcribed from
crypto/vm/dict.cpp (append_dict_label, DictionaryFixed::set) and hashmap.tlb - independent of the code under analysis.

hm_edge#_ {n:#} {X:Type} {l:#} {m:#} label:(HmLabel ~l n) {n = (~m) + l} node:(HashmapNode m X) = Hashmap n X;
hmn_leaf#_ {X:Type} value:X = HashmapNode 0 X;
hmn_fork#_ {n:#} {X:Type} left:^(Hashmap n X) right:^(Hashmap n X) = HashmapNode (n + 1) X;
hml_short$0 {m:#} {n:#} len:(Unary ~n) {n <= m} s:(n * Bit) = HmLabel ~n m;
hml_long$10 {m:#} n:(#<= m) s:(n * Bit) = HmLabel ~n m;
hml_same$11 {m:#} v:Bit n:(#<= m) = HmLabel ~n m;
ahm_edge / ahmn_leaf extra:Y value:X / ahmn_fork left right extra:Y
"""
from .bocspec import SCell


def label_kind(n, m, same):
    """TON's choice (append_dict_label): same iff all bits equal, n > 1 and k < 2n-1; else long iff k < n; else short"""
    k = m.bit_length()
    if n > 0 and same:
        if n > 1 and k < 2 * n - 1:
            return 'same'
        return 'long' if k < n else 'short'
    return 'long' if k < n else 'short'


def is_same(label):
    return len(label) > 0 and label == label[0] * len(label)


def encode_label(label, m, kind=None):
    n = len(label)
    k = m.bit_length()
    kind = kind or label_kind(n, m, is_same(label))
    if kind == 'short':
        return '0' + '1' * n + '0' + label
    if kind == 'long':
        return '10' + (format(n, f'0{k}b') if k else '') + label
    if kind == 'same':
        assert is_same(label)
        return '11' + label[0] + (format(n, f'0{k}b') if k else '')
    raise ValueError(kind)


def valid_kinds(label, m):
    out = ['short', 'long']
    if is_same(label):
        out.append('same')
    return out


def build(keys_values, m, chooser=None, aug=None, prune=None, path=''):
    """keys_values: dict bitstring(len m) -> value bits ('01' string). returns SCell of a Hashmap m X edge.
    chooser(label, m, path) -> kind (non-canonical but valid encodings); aug = (leaf_extra(valuebits)->bits, fork_extra(l, r)->bits);
    prune: set of paths (key prefixes) whose sub-tree is replaced by a pruned-branch cell."""
    assert keys_values
    keys = sorted(keys_values)
    # longest common prefix
    a, b = keys[0], keys[-1]
    l = 0
    while l < len(a) and a[l] == b[l]:
        l += 1
    label = a[:l]
    kind = chooser(label, m, path) if chooser else None
    bits = encode_label(label, m, kind)
    rest = m - l
    if rest == 0:
        assert len(keys) == 1
        val = keys_values[keys[0]]
        if aug:
            ex = aug[0](val)
            if len(aug) > 2 and aug[2]:
                # the extra owns a reference (e.g. a currency collection with extra currencies): ahmn_leaf extra:Y value:X - the extra's reference comes first
                return SCell(bits + ex + val, [SCell('1010' + ex)]), ex
            return SCell(bits + ex + val), ex
        return SCell(bits + val), None
    left = {k[l + 1:]: v for k, v in keys_values.items() if k[l] == '0'}
    right = {k[l + 1:]: v for k, v in keys_values.items() if k[l] == '1'}
    subs = []
    exs = []
    for bit, sub in (('0', left), ('1', right)):
        p = path + label + bit
        c, ex = build(sub, rest - 1, chooser, aug, prune, p)
        if prune and p in prune:
            c = pruned_of(c)
        subs.append(c)
        exs.append(ex)
    if aug:
        ex = aug[1](exs[0], exs[1])
        if len(aug) > 2 and aug[2]:
            # ahmn_fork left:^ right:^ extra:Y - the extra's reference follows the two children
            return SCell(bits + ex, subs + [SCell('1010' + ex)]), ex
        return SCell(bits + ex, subs), ex
    return SCell(bits, subs), None


def pruned_of(c):
    """a pruned-branch cell standing for sub-tree c (hash/depth content is irrelevant to the parser)"""
    import hashlib
    h = hashlib.sha256(repr((c.bits, len(c.refs))).encode()).digest()
    data = bytes([1, 1]) + h + bytes([0, 1])
    return SCell(''.join(format(x, '08b') for x in data), [], exotic=True, mask=1)


def intern(c, table=None):
    """hash-cons a specification tree: equal sub-trees become one object (as in a bag of cells, where equal cells are stored once)"""
    table = {} if table is None else table
    kids = [intern(r, table) for r in c.refs]
    key = (c.bits, c.exotic, c.mask, tuple(id(k) for k in kids))
    if key not in table:
        table[key] = SCell(c.bits, kids, c.exotic, c.mask)
    return table[key]
