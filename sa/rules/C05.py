"""C05 - the BoC parser agrees with the format on foreign input and rejects corruption.

The parser (Boc.__init__/deserialize/deserialize_boc_header/deserialize_cell and the Cell constructor) is abstractly
interpreted on byte strings produced by the checker's *own* encoder (sa/bocspec.py, transcribed from boc.tlb), which
enumerates the encoder freedoms completely: three magics x size width x offset width x index x cache bits x CRC x stored
hashes x two valid cell orders x one or several roots. The parsed roots must denote the encoded DAG. Then every truncation,
several extensions, bit flips in CRC-protected input and every kind of bad reference index must raise.
"""
import sys
import itertools
from ..core import AnalysisError
from ..front import Program
from ..interp import Interp
from ..values import *
from .. import bocspec, bocrun
from .. import cellmodel as cm

MANIFEST = dict(
    technique='abstract interpretation of the BoC parser on the complete encoder-option space of an independent serialized_boc encoder; exhaustive truncations; reference-index and CRC corruption classes',
    text='Decides that for every admissible encoder choice (magic, widths, index, cache bits, CRC, stored hashes, cell order, several roots) the parser '
         'returns exactly the encoded roots, and that every truncation/extension, every corrupted byte of CRC-protected input (position-exhaustive, '
         'one flip per byte; all bits in thorough tier) and every dangling/backward/self reference raises. DAG fixtures are finite.'
         ' Reference faults are refused in cells that no root reaches as well.'
         ' Several bags parsed in one process are each decoded by their own header (every order of indexed / plain / checksummed bags). Stored hashes are never trusted, also when the stored depths are those of the real tree.',
    note='trusted: interpreter, sa/bocspec.py encoder. CRC-32C detecting every single-bit flip is a property of the code (C18 proves the CRC is the standard one); here it is exercised per position.',
    design_ref='DESIGN.md section 4 C05')


def parse(prog, raw, entry='from_boc'):
    it = Interp(prog)
    cells = it.call(it.getattr(prog.cls('Cell'), entry), [K(raw)], {})
    return it, cells


def roots_match(it, cells, roots):
    if not isinstance(cells, ListV):
        return False, f'result is {vrepr(cells)[:40]}'
    if len(cells.items) != len(roots):
        return False, f'{len(cells.items)} roots returned, {len(roots)} encoded'
    for i, (c, r) in enumerate(zip(cells.items, roots)):
        if bocrun.ckey(it, c) != bocrun.skey(r):
            return False, f'root {i} differs from the encoded cell'
    return True, ''


def check(run):
    sys.setrecursionlimit(20000)
    prog = Program()
    w = prog.where(prog.method('Boc', 'deserialize_boc_header'))
    wc = prog.where(prog.method('Boc', 'deserialize_cell'))
    wd = prog.where(prog.method('Boc', 'deserialize'))
    thorough = run.tier == 'thorough'
    run.explanation = 'BoC parser interpreted on the output of an independent encoder over the complete option space; corruption classes must raise.'
    run.rule('D1', 'every valid encoding (any magic, size/offset widths, index, cache bits, CRC, cell order, roots) parses to exactly the encoded roots', 150)
    run.rule('D2', 'truncated or extended input raises', 100)
    run.rule('D3', 'a corrupted byte anywhere in CRC-protected input raises (CRC compared over everything before the trailer)', 40)
    run.rule('D4', 'cell layout: refs = d1&7, exotic = bit 3, stored hashes (bit 4) skipped as (popcount(mask)+1)*(32+2) bytes, completion tag stripped iff d2 odd', 17)
    run.rule('D5', 'dangling, backward and self references raise', 7)
    run.trust('CPython ast', 'checker interpreter', 'sa/bocspec.py encoder (boc.tlb / boc.cpp)')
    small_scope(run, prog, w, 5 if thorough else 3)
    dags = bocrun.dags(False)
    pick = ['single-empty', 'single-13bits', 'chain3', 'diamond', 'shared-later', 'four-refs', 'merkle-proof', 'ordinary-over-pruned', 'payload256', 'pruned-masks-2456', 'pruned-masks-37']
    # ---- D1 option space
    n = 0
    for name in pick:
        roots = dags[name]
        ncells = bocrun.n_distinct(roots)
        for magic in ('generic', 'idx', 'idx_crc'):
            sizes = [None, 2, 4] if name in ('chain3', 'diamond', 'single-empty') or thorough else [None, 3]
            offs = [None, 2, 8] if name in ('chain3', 'payload256') or thorough else [None]
            for size, off in itertools.product(sizes, offs):
                if magic == 'generic':
                    combos = [(i, c, k) for i in (0, 1) for c in (0, 1) for k in (0, 1) if not (k and not i)]
                else:
                    combos = [(1, int(magic == 'idx_crc'), 0)]
                for has_idx, has_crc, cache in combos:
                    for order in (('dfs', 'bfs-late') if name in ('diamond', 'shared-later', 'four-refs') else ('dfs',)):
                        if not thorough and size and off and (has_idx, has_crc, cache) not in ((0, 0, 0), (1, 1, 1), (1, 0, 0), (1, 1, 0)):
                            continue
                        raw, cells = bocspec.encode(roots, magic=magic, size=size, off=off, has_idx=bool(has_idx), has_crc=bool(has_crc),
                                                    cache_bits=bool(cache), order=order)
                        tag = f'{name}[{magic},size={size or "min"},off={off or "min"},idx={has_idx},crc={has_crc},cache={cache},{order}]'
                        cons = f'Boc.deserialize_boc_header[{magic}]'
                        try:
                            it, res = parse(prog, raw)
                            ok, why = roots_match(it, res, roots)
                        except RaiseEx as e:
                            ok, why = False, f'rejected: {e}'
                        run.evaluations += 1
                        n += 1
                        run.check(ok, 'D1', cons if not ok else tag, f'{tag}: ' + ('parsed to the encoded roots' if ok else why), w,
                                  witness=dict(boc=raw.hex()[:300], dag=name))
    # bags of different constructors / option sets parsed one after the other in the same process: each parse depends on its own bytes only
    variants = [('generic', dict(has_idx=False, has_crc=False, cache_bits=False)), ('idx', dict(has_idx=True, has_crc=False, cache_bits=False)),
                ('generic', dict(has_idx=True, has_crc=True, cache_bits=True)), ('idx_crc', dict(has_idx=True, has_crc=True, cache_bits=False)),
                ('generic', dict(has_idx=False, has_crc=True, cache_bits=False)), ('generic', dict(has_idx=False, has_crc=False, cache_bits=False))]
    it = Interp(prog)
    seq_roots = [dags['chain3'], dags['diamond'], dags['single-13bits'], dags['chain3'], dags['four-refs'], dags['diamond']]
    for step, ((magic, kw), roots) in enumerate(zip(variants + variants[::-1], seq_roots + seq_roots[::-1])):
        raw, _ = bocspec.encode(roots, magic=magic, **kw)
        tag = f'parse #{step + 1} in one process: {magic} idx={int(kw["has_idx"])} crc={int(kw["has_crc"])} cache={int(kw["cache_bits"])}'
        try:
            res = it.call(it.getattr(prog.cls('Cell'), 'from_boc'), [K(raw)], {})
            ok, why = roots_match(it, res, roots)
        except RaiseEx as e:
            ok, why = False, f'rejected: {e}'
        run.evaluations += 1
        run.check(ok, 'D1', 'Boc.deserialize_boc_header[bags parsed earlier in the process]' if not ok else tag, f'{tag}: ' + ('parsed to the encoded roots' if ok else why), w)
    # several roots (generic magic only)
    a, b, sh = dags['chain3'][0], dags['single-13bits'][0], dags['diamond'][0]
    for roots in ([a, b], [b, a, sh], [sh, sh.refs[0]]):
        for has_idx, has_crc in ((0, 0), (1, 1)):
            raw, _ = bocspec.encode(roots, has_idx=bool(has_idx), has_crc=bool(has_crc))
            tag = f'roots={len(roots)}[idx={has_idx},crc={has_crc}]'
            try:
                it, res = parse(prog, raw)
                ok, why = roots_match(it, res, roots)
            except RaiseEx as e:
                ok, why = False, f'rejected: {e}'
            run.check(ok, 'D1', 'Boc.deserialize[multi-root]' if not ok else tag, f'{tag}: ' + ('parsed to the encoded roots, in order' if ok else why), wd)
    # ---- D4 stored hashes for every level mask, and completion tags
    from ..bocspec import SCell
    for mask in range(8):
        leafp = SCell(bocrun.bits_of(f'm{mask}', 12))
        # an ordinary cell whose descriptor carries `mask` (as a foreign encoder would emit for a cell above pruned branches)
        r = SCell(bocrun.bits_of(f'r{mask}', 5), [leafp], mask=0)
        raw, cells = bocspec.encode([r], with_hashes=True)
        # patch the level mask bits into d1 of the root and insert the matching number of stored hashes
        raw2, _ = encode_with_mask(r, mask)
        try:
            it, res = parse(prog, raw2)
            got = res.items[0] if isinstance(res, ListV) and res.items else None
            ok = got is not None and bocrun.ckey(it, got)[0] == r.bits and len(it.getattr(got, 'refs').items) == 1
            why = 'data and references recovered' if ok else f'wrong data after the stored hashes: {bocrun.ckey(it, got)[0] if got is not None else None} vs {r.bits}'
        except RaiseEx as e:
            ok, why = False, f'rejected: {e}'
        run.check(ok, 'D4', 'Boc.deserialize_cell[stored hashes]' if not ok else f'stored-hashes[mask={mask:03b}]',
                  f'cell with stored hashes and level mask {mask:03b} ({bin(mask).count("1") + 1} hash/depth pairs): {why}', wc, witness=dict(mask=mask, boc=raw2.hex()))
        run.evaluations += 1
    # stored hashes on the largest cells (1023 data bits, four references): 2 + 4*34 + 128 + 4 bytes for one cell
    for mask, nbits, nrefs in ((0, 1023, 4), (7, 1023, 4), (7, 792, 0), (1, 1017, 4), (3, 1023, 0)):
        r = SCell(bocrun.bits_of(f'big{mask}{nbits}', nbits), [SCell(bocrun.bits_of(f'bl{i}', 2 + i)) for i in range(nrefs)], mask=0)
        raw2 = encode_big_with_mask(r, mask)
        try:
            it, res = parse(prog, raw2)
            got = res.items[0] if isinstance(res, ListV) and res.items else None
            ok = got is not None and bocrun.ckey(it, got)[0] == r.bits and len(it.getattr(got, 'refs').items) == nrefs
            why = 'data and references recovered' if ok else 'wrong data / references after the stored hashes'
        except RaiseEx as e:
            ok, why = False, f'rejected: {e}'
        run.check(ok, 'D4', 'Boc.deserialize_cell[stored hashes, large cell]' if not ok else f'stored-hashes-large[mask={mask:03b},{nbits}b,{nrefs}r]',
                  f'{nbits}-bit cell with {nrefs} references, stored hashes, level mask {mask:03b}: {why}', wc, witness=dict(mask=mask, boc=raw2.hex()[:400]))
        run.evaluations += 1
    stored_hash_scenarios(run, prog, 'D4', dags, wc)
    for nb in (0, 1, 7, 8, 9, 15, 16, 1016, 1023):
        bits = bocrun.bits_of('tag', nb)
        # worst case for tag stripping: data ending in zeros
        bits = bits[:-3] + '000' if nb >= 3 else bits
        raw, _ = bocspec.encode([SCell(bits)])
        try:
            it, res = parse(prog, raw)
            ok = bocrun.ckey(it, res.items[0])[0] == bits
        except RaiseEx as e:
            ok = False
        run.check(ok, 'D4', 'Boc.deserialize_cell[completion tag]' if not ok else f'tag[{nb}]', f'{nb} data bits ending in zeros: ' + ('recovered exactly' if ok else 'not recovered'), wc)
    # ---- D2 truncation / extension (every prefix)
    samples = [('generic', dict()), ('generic', dict(has_idx=True, has_crc=True, cache_bits=True)), ('idx', dict()), ('idx_crc', dict())]
    for magic, kw in samples:
        raw, _ = bocspec.encode(dags['diamond'], magic=magic, **kw)
        try:
            parse(prog, raw)
            base_ok = True
        except RaiseEx:
            base_ok = False
        if not base_ok:
            continue     # reported under D1
        bad = 0
        for cut in range(0, len(raw)):
            try:
                it, res = parse(prog, raw[:cut])
                bad += 1
                if bad <= 2:
                    run.fail('D2', f'Boc.deserialize_boc_header[{magic}]', f'{magic} encoding of {len(raw)} bytes truncated to {cut} bytes is accepted', w, witness=dict(boc=raw[:cut].hex()))
            except RaiseEx:
                run.ok('D2', f'trunc[{magic},{"+".join(sorted(kw)) or "plain"},{cut}]')
            run.evaluations += 1
        for ext in (b'\x00', b'\xff\xff', raw[-4:], b'\x00' * 8):
            try:
                parse(prog, raw + ext)
                run.fail('D2', f'Boc.deserialize_boc_header[{magic}]', f'{magic} encoding followed by {len(ext)} extra byte(s) is accepted', w, witness=dict(boc=(raw + ext).hex()))
            except RaiseEx:
                run.ok('D2', f'ext[{magic},{"+".join(sorted(kw)) or "plain"},{len(ext)}]')
    # ---- D3 CRC
    for magic, kw in (('generic', dict(has_crc=True)), ('generic', dict(has_idx=True, has_crc=True)), ('idx_crc', dict())):
        raw, _ = bocspec.encode(dags['diamond'], magic=magic, **kw)
        try:
            parse(prog, raw)
        except RaiseEx:
            continue
        bad = 0
        for pos in range(len(raw)):
            for bit in (range(8) if thorough else (pos % 8,)):
                mut = bytearray(raw)
                mut[pos] ^= 1 << bit
                try:
                    parse(prog, bytes(mut))
                    bad += 1
                    if bad <= 2:
                        run.fail('D3', f'Boc.deserialize_boc_header[{magic},crc]', f'bit {bit} of byte {pos} flipped in a CRC-protected encoding: still accepted', w, witness=dict(boc=bytes(mut).hex()))
                except RaiseEx:
                    if bit == pos % 8:
                        run.ok('D3', f'flip[{magic},{"+".join(sorted(kw)) or "plain"},{pos}]')
                run.evaluations += 1
    # ---- D5 reference discipline (no CRC so that only the reference check can object)
    raw, cells = bocspec.encode(dags['chain3'])
    # layout: header 4+1+1+3*size+off+roots*size ; cells: [d1 d2 data.. ref]...
    hdr = 4 + 1 + 1 + 3 + 1 + 1
    first_ref = hdr + 2 + len(cells[0].data_bytes())
    second_ref = first_ref + 1 + 2 + len(cells[1].data_bytes())
    for what, pos, val in (('self reference', first_ref, 0), ('backward reference', second_ref, 0), ('self reference (middle cell)', second_ref, 1),
                           ('dangling reference', second_ref, 3), ('dangling reference (255)', first_ref, 255)):
        mut = bytearray(raw)
        mut[pos] = val
        try:
            it, res = parse(prog, bytes(mut))
            run.fail('D5', 'Boc.deserialize[references]', f'{what} (index {val}) is accepted', wd, witness=dict(boc=bytes(mut).hex()))
        except RaiseEx:
            run.ok('D5', what)
    # the same reference faults in a cell that no root reaches (root -> cell 2 directly; cell 1 is an orphan that still references cell 2): the bag
    # is parsed as a table of cells, a fault in any entry is a fault of the bag - a parser that builds on demand from the roots never looks at it
    orphan = bytearray(raw)
    orphan[first_ref] = 2
    try:
        parse(prog, bytes(orphan))
        orphan_ok = True
    except RaiseEx:
        orphan_ok = False        # the parser refuses unreachable cells altogether: stricter than the clause needs, nothing to add
        run.info('a bag with a cell no root reaches is refused as such')
    if orphan_ok:
        for what, val in (('backward reference in an unreachable cell', 0), ('self reference in an unreachable cell', 1), ('dangling reference in an unreachable cell', 3),
                          ('dangling reference (255) in an unreachable cell', 255)):
            mut = bytearray(orphan)
            mut[second_ref] = val
            try:
                parse(prog, bytes(mut))
                run.fail('D5', 'Boc.deserialize[references of unreachable cells]', f'{what} (index {val}) is accepted', wd, witness=dict(boc=bytes(mut).hex()))
            except RaiseEx:
                run.ok('D5', what)
            run.evaluations += 1
    # root index out of range
    mut = bytearray(raw)
    mut[hdr - 1] = 9
    try:
        parse(prog, bytes(mut))
        run.fail('D5', 'Boc.deserialize[root index]', 'root index 9 of 3 cells accepted', wd)
    except RaiseEx:
        run.ok('D5', 'dangling root index')
    # more than 4 references
    mut = bytearray(raw)
    mut[hdr] = 5
    try:
        parse(prog, bytes(mut))
        run.fail('D5', 'Boc.deserialize_cell[refs>4]', 'a cell announcing 5 references is accepted', wc)
    except RaiseEx:
        run.ok('D5', 'five references')


def encode_with_mask(r, mask):
    """encode a one-root two-cell bag whose root carries stored hashes for level mask `mask`"""
    import hashlib
    leaf = r.refs[0]
    k = bin(mask).count('1') + 1
    root_ser = bytes([len(r.refs) + 16 + 32 * mask, r.d2()])
    root_ser += b''.join(hashlib.sha256(b'sh' + bytes([i])).digest() for i in range(k))
    root_ser += b''.join(bytes([0, 1]) for _ in range(k))
    root_ser += r.data_bytes() + bytes([1])
    leaf_ser = bytes([leaf.d1(), leaf.d2()]) + leaf.data_bytes()
    payload = root_ser + leaf_ser
    off = 2 if len(payload) > 255 else 1
    out = bocspec.MAGIC['generic'] + bytes([1, off]) + bytes([2, 1, 0]) + len(payload).to_bytes(off, 'big') + bytes([0]) + payload
    return out, None


def encode_big_with_mask(r, mask):
    """one root with stored hashes for level mask `mask`, followed by its (leaf) references; minimal widths"""
    import hashlib
    k = bin(mask).count('1') + 1
    n = 1 + len(r.refs)
    root_ser = bytes([len(r.refs) + 16 + 32 * mask, r.d2()])
    root_ser += b''.join(hashlib.sha256(b'sh' + bytes([i])).digest() for i in range(k))
    root_ser += b''.join(bytes([0, 1]) for _ in range(k))
    root_ser += r.data_bytes() + bytes(range(1, n))
    payload = root_ser + b''.join(bytes([l.d1(), l.d2()]) + l.data_bytes() for l in r.refs)
    off = 2 if len(payload) > 255 else 1
    return bocspec.MAGIC['generic'] + bytes([1, off]) + bytes([n, 1, 0]) + len(payload).to_bytes(off, 'big') + bytes([0]) + payload


def small_scope(run, prog, where, max_n):
    """small-scope exhaustive family (quick: <= 3 cells; thorough: up to 5): every DAG shape with <= 3 cells (<= 4 references each), 4 cells (<= 3) and 5 cells (<= 2), two content modes"""
    from .. import smallscope
    n, res = smallscope.run_family(prog, 'reader', max_n)
    run.count('small_scope_dags', n)
    bad = [r for r in res if r[2] != 'ok']
    if any(r[2] == 'undecided' for r in res):
        raise AnalysisError(f'small-scope family: {[r for r in res if r[2] == "undecided"][0]}')
    run.evaluations += len(res)
    for tag, opt, st, detail in res:
        if st == 'ok':
            run.ok('D1', f'small:{tag}{list(opt)}')
    for tag, opt, st, detail in bad[:3]:
        run.fail('D1', 'Boc.deserialize[small-scope DAG]', f'{tag} with options {opt}: {detail}  ({len(bad)} of {len(res)} small-scope cases fail)', where, witness=dict(dag=tag, opt=[str(o) for o in opt]))


def encode_all_with_bogus_hashes(root, true_depths=False):
    """every cell of the DAG serialised with the with-hashes flag and arbitrary (wrong) stored hash values; the stored depths are wrong as
    well, or (true_depths) the depths of the tree below the cell - what a forger who wants his record to look plausible writes"""
    import hashlib
    cells = bocspec.topo([root], 'dfs')
    index_of = {id(c): i for i, c in enumerate(cells)}

    def depth(c):
        return 0 if not c.refs else 1 + max(depth(r) for r in c.refs)
    payload = b''
    for ci, c in enumerate(cells):
        mask = c.mask if hasattr(c, 'mask') else 0
        k = bin(mask).count('1') + 1
        ser = bytes([c.d1() | 16, c.d2()])
        ser += b''.join(hashlib.sha256(b'bogus' + bytes([ci, i])).digest() for i in range(k))
        ser += b''.join((depth(c).to_bytes(2, 'big') if true_depths else bytes([0x7f, 0x7f])) for _ in range(k))
        ser += c.data_bytes() + bytes(index_of[id(r)] for r in c.refs)
        payload += ser
    n = len(cells)
    off = 2 if len(payload) > 255 else 1
    return bocspec.MAGIC['generic'] + bytes([1, off]) + bytes([n, 1, 0]) + len(payload).to_bytes(off, 'big') + bytes([0]) + payload


def stored_hash_scenarios(run, prog, rule, dags, wc):
    # exotic cells carrying stored hashes, and: stored hashes are never trusted - the parsed cell's hash is the one computed from its content
    for name, true_depths in [(n_, t_) for n_ in ('merkle-proof', 'ordinary-over-pruned', 'diamond') for t_ in (False, True)]:
        roots = dags[name]
        raw = encode_all_with_bogus_hashes(roots[0], true_depths)
        tag = f'{name}[every cell with stored (bogus) hashes{", stored depths as in the tree" if true_depths else ""}]'
        try:
            it, res = parse(prog, raw)
            got = res.items[0] if isinstance(res, ListV) and res.items else None
            same = got is not None and bocrun.ckey(it, got) == bocrun.skey(roots[0])
            ref_cell = bocrun.build(it, roots[0])
            honest = got is not None and repr(cm.cached(it, got, '_hash')) == repr(cm.cached(it, ref_cell, '_hash')) and repr(cm.cached(it, got, '_depths')) == repr(cm.cached(it, ref_cell, '_depths'))
            ok = same and honest
            why = f'same cells (types, data, references): {same}; hash and depth computed from the content, not taken from the stored values: {honest}'
        except RaiseEx as e:
            ok, why = False, f'rejected: {e}'
        run.check(ok, rule, 'Boc.deserialize_cell[stored hashes, exotic / trust]' if not ok else f'stored-hashes-exotic[{name}{",true depths" if true_depths else ""}]', f'{tag}: {why}', wc, witness=dict(boc=raw.hex()[:400]))
        run.evaluations += 1
