"""C08 - cells are immutable values; derived objects are isolated snapshots; no state is carried between calls.

Two complementary analyses.
(1) Alias/effect analysis *by abstract interpretation with object identity*: the interpreter's heap models every bit
    container and reference list as a distinct mutable object, so sharing between a cell and anything derived from it is
    observable: after each derivation route, every mutating operation of the derived object is applied and the source is
    compared with its snapshot (and vice versa). This is exhaustive over (derivation route x mutating primitive).
(2) Syntactic effect rules over the whole package: mutable default arguments that are mutated or escape; writes to
    module-level / class-level mutable objects; `serialize`/hash/to_boc methods that mutate their inputs.
"""
import ast
from ..core import AnalysisError
from ..front import Program, FuncRef
from ..interp import Interp
from ..values import *
from .. import cellmodel as cm
from .. import bocrun
from .C06 import builder, call, segs_of, to_slice, rem
from .C07 import store_prims, nbits, nrefs

MANIFEST = dict(
    technique='alias/effect analysis: abstract interpretation with object identity over (derivation route x mutating primitive), plus syntactic effect rules (mutable defaults, global/class state, mutating serialisers) over the whole package',
    text='Decides that no derivation route (begin_parse, to_builder, end_cell, to_slice, to_cell, copy, from_cell, plain-bitarray construction) '
         'shares a mutable bit container or reference list with a cell, that repeated hashing/ordering/serialising gives identical terms '
         'and leaves inputs untouched, that no function keeps state in a mutable default / module / class object, and that no TL-B '
         'serialiser mutates a caller-held container.'
         ' A module-level table is accepted as a memo only when it is used as a table and keyed by every input of the computation it caches (unmodified parameters, no other parameter read); module-level instances of package classes that a function hands out by `return` are shared state.'
         ' A function that rebinds a class attribute (a counter kept on the class) is process-wide state unless the step is undone in a finally directly around what follows, or it is a once-only table under a guard on the attribute whose value mentions no parameter.'
         ' What order() returns belongs to the caller (collecting another root into it or clearing it changes nothing the cell reports later); end_cell() is a snapshot of the builder also after its content was replaced through the setters; local aliases of class-level containers are followed; a memoised function whose cached result is a mutable container that a caller changes in place is state carried between calls.',
    note='trusted: interpreter heap model (every list/bitarray is an identity-bearing mutable object). Not decided: state kept inside third-party libraries.',
    design_ref='DESIGN.md section 4 C08')

MUTATORS = {'append', 'extend', 'pop', 'insert', 'remove', 'clear', 'sort', 'reverse', 'update', 'setdefault', 'popitem', 'fill',
            'frombytes', 'add', 'discard', 'invert', 'setall', 'bytereverse'}


def memo_transparent(prog, m, mname, name):
    """Is the module-level dictionary `name` a memo that no caller can observe?  True when (1) it is only ever used as a table - looked up, stored
    into, evicted from - and (2) at every store the key is made of ALL the inputs of the computation: the function that looks the key up and later
    stores (directly, or through a helper that only forwards key and value) is given the key as one or several of its own parameters, unmodified,
    and reads no other parameter (`self` is read only through attributes the function itself assigns).  Otherwise a string saying why not."""
    funcs = [f for f in prog.all_functions() if f.module == mname]
    table_ops = {'get', 'pop', 'popitem', 'clear', 'setdefault', 'keys', 'items', 'values', 'move_to_end'}
    stores = []          # (function, key expr, value expr)
    for f in funcs:
        parents = {}
        for n in ast.walk(f.node):
            for c in ast.iter_child_nodes(n):
                parents[c] = n
        for n in ast.walk(f.node):
            if isinstance(n, ast.Name) and n.id == name and isinstance(n.ctx, ast.Load):
                p = parents.get(n)
                if isinstance(p, ast.Subscript) and p.value is n:
                    if isinstance(p.ctx, ast.Store):
                        a = parents.get(p)
                        if isinstance(a, ast.Assign) and len(a.targets) == 1:
                            stores.append((f, p.slice, a.value))
                            continue
                        return 'stored into by something other than a plain assignment'
                    continue
                if isinstance(p, ast.Attribute) and p.attr in table_ops:
                    continue
                if isinstance(p, ast.Compare) and any(c_ is n for c_ in p.comparators):
                    continue
                if isinstance(p, ast.Call) and isinstance(p.func, ast.Name) and p.func.id in ('len', 'iter', 'next', 'list', 'sorted'):
                    continue
                return f'used as more than a table in {f.qual}: `{ast.unparse(p)[:40]}`'
    if not stores:
        return 'never stored into by subscript assignment'

    def params(f):
        a = f.node.args
        ps = [x.arg for x in a.posonlyargs + a.args + a.kwonlyargs]
        return ps[1:] if f.cls is not None and ps and ps[0] in ('self', 'cls') else ps

    def key_params(key):
        elts = key.elts if isinstance(key, ast.Tuple) else [key]
        out = []
        for e in elts:
            if isinstance(e, ast.Name):
                out.append(e.id)
            elif isinstance(e, ast.Constant):
                continue
            else:
                return None
        return out

    def reads_only(f, allowed):
        ps = set(params(f))
        used = {n.id for n in ast.walk(f.node) if isinstance(n, ast.Name) and isinstance(n.ctx, ast.Load) and n.id in ps}
        return used <= set(allowed), sorted(used - set(allowed))
    for f, key, value in stores:
        kp = key_params(key)
        if kp is None or not set(kp) <= set(params(f)) or not kp:
            return f'the key `{ast.unparse(key)[:40]}` stored in {f.qual} is computed, not the unmodified inputs'
        ok, extra = reads_only(f, kp)
        if ok:
            continue
        # a helper that only forwards (key, value): every other parameter it reads must flow into the stored value alone
        vnames = {n.id for n in ast.walk(value) if isinstance(n, ast.Name)}
        if not set(extra) <= vnames or any(isinstance(n, ast.Name) and n.id in extra and isinstance(n.ctx, ast.Load) and not any(n is y for y in ast.walk(value))
                                           for n in ast.walk(f.node)):
            return f'{f.qual} reads the parameter(s) {extra} that are not part of the key'
        # ... then the callers decide: the key they pass must be their own unmodified parameters, and they read no other parameter
        pos = {p_: i for i, p_ in enumerate(params(f))}
        callers = [(g, c) for g in funcs for c in ast.walk(g.node) if isinstance(c, ast.Call) and isinstance(c.func, ast.Name) and c.func.id == f.name]
        if not callers:
            return f'{f.qual} stores a value given by unknown callers'
        for g, c in callers:
            passed = []
            for p_ in kp:
                arg = c.args[pos[p_]] if pos[p_] < len(c.args) else next((k.value for k in c.keywords if k.arg == p_), None)
                if not isinstance(arg, ast.Name) or arg.id not in params(g):
                    return f'{g.qual} passes a computed key to {f.name}'
                passed.append(arg.id)
            ok, extra2 = reads_only(g, passed)
            if not ok:
                return f'{g.qual} reads the parameter(s) {extra2} that are not part of the key'
    return True


def snap(it, c):
    bits = c.attrs['bits']
    nat = bits.native if isinstance(bits, Inst) else bits
    refs = c.attrs['refs']
    return (nat.desc(), tuple(id(x) for x in refs.items), repr(cm.cached(it, c, '_hash')), repr(c.attrs.get('type_')),
            repr(c.attrs.get('_data_bytes')))


def snap_slice(it, s):
    bits = s.attrs['bits']
    nat = bits.native if isinstance(bits, Inst) else bits
    off = s.attrs['ref_offset']
    return (nat.desc(), tuple(id(x) for x in s.attrs['refs'].items[off.v:]) if isinstance(off, K) else None)


def snap_builder(it, b):
    return (tuple(repr(s) for s in segs_of(b)), tuple(id(x) for x in it.getattr(b, 'refs').items))


def slice_mutators(it):
    return {
        'load_bit': lambda s: call(it, s, 'load_bit'),
        'load_bool': lambda s: call(it, s, 'load_bool'),
        'load_uint': lambda s: call(it, s, 'load_uint', K(5)),
        'load_int': lambda s: call(it, s, 'load_int', K(5)),
        'load_bits': lambda s: call(it, s, 'load_bits', K(7)),
        'load_bytes': lambda s: call(it, s, 'load_bytes', K(1)),
        'skip_bits': lambda s: call(it, s, 'skip_bits', K(9)),
        'load_ref': lambda s: call(it, s, 'load_ref'),
        'load_string': lambda s: call(it, s, 'load_bytes', K(2)),
        'load_maybe_ref': lambda s: call(it, s, 'load_maybe_ref'),
        'preload_uint': lambda s: call(it, s, 'preload_uint', K(9)),
        'preload_bits': lambda s: call(it, s, 'preload_bits', K(9)),
        'preload_ref': lambda s: call(it, s, 'preload_ref'),
        'bits.pop': lambda s: call(it, it.getattr(s, 'bits'), 'pop', K(0)),
        'bits.append': lambda s: call(it, it.getattr(s, 'bits'), 'append', K(1)),
        'refs.pop': lambda s: call(it, it.getattr(s, 'refs'), 'pop'),
    }


def builder_mutators(it):
    P = store_prims(it)
    names = ['store_uint(8)', 'store_int(8)', 'store_bit', 'store_bits(100)', 'store_bytes(1)', 'store_coins(10^9)', 'store_ref',
             'store_maybe_ref(cell)', 'store_cell(50 bits)', 'store_slice(50 bits)', 'store_address(std)']
    out = {n: P[n][2] for n in names}
    out['bits.append'] = lambda b: call(it, it.getattr(b, 'bits'), 'append', K(1))
    out['refs.append'] = lambda b: call(it, it.getattr(b, 'refs'), 'append', cm.leaf(it, 0, 'x'))
    out['refs.pop'] = lambda b: call(it, it.getattr(b, 'refs'), 'pop')
    return out


def mk_source(it, concrete=False):
    if concrete:
        kids = [cm.new_cell(it, cm.tvm_bits(it, BA([Seg(2, 'k', f'1{i}')])), []) for i in range(2)]
        seg = BA([Seg(61, 'k', '1' + '0110' * 15)])
        return cm.new_cell(it, cm.tvm_bits(it, seg), kids), kids
    kids = [cm.leaf(it, 2, f'k{i}') for i in range(2)]
    seg = BA([Seg(1, 'k', '1'), Seg(60, '?', Sym('payload', ty='bits', n=60, key=('payload',)))])
    return cm.new_cell(it, cm.tvm_bits(it, seg), kids), kids


def self_attrs(c):
    """attribute names assigned on self anywhere in the class"""
    out = set()
    for m in c.methods.values():
        for n in ast.walk(m):
            if isinstance(n, ast.Attribute) and isinstance(n.ctx, ast.Store) and isinstance(n.value, ast.Name) and n.value.id == 'self':
                out.add(n.attr)
    return out


def check(run):
    prog = Program()
    wc = prog.where(prog.method('Cell', 'begin_parse'))
    run.explanation = ('(1) derivation routes x mutating primitives interpreted on a heap with object identity: the source snapshot must be '
                       'unchanged; (2) syntactic effect rules over all functions of the package.')
    run.rule('D1', 'copy-on-derive: mutating anything derived from a cell (slice, builder, copy, re-built cell) or the builder it came from leaves the cell unchanged', 100)
    run.rule('D1b', 'slices and builders derived from one another are isolated (slice.copy, builder.to_slice, slice.to_cell, slice.to_builder)', 40)
    run.rule('D2', 'no method of a cell mutates its own data, references or cached hash fields (hash/order/to_boc/serialize/get_* repeated give identical terms)', 10)
    run.rule('D3', 'no state between calls: no mutable default argument that is mutated or escapes; no function mutates module-level or class-level containers', 1)
    run.rule('D4', 'serialisers (TlbScheme.serialize, Cell.to_boc/serialize, HashMap.serialize) do not mutate caller-held containers', 1)
    run.trust('CPython ast', 'checker interpreter heap model')
    run.exhaustive = True

    # ================= (1) interpretation with identity
    routes = {
        'Cell.begin_parse': lambda it, c: call(it, c, 'begin_parse'),
        'Cell.to_slice': lambda it, c: call(it, c, 'to_slice'),
        'Slice.from_cell': lambda it, c: it.call(it.getattr(prog.cls('Slice'), 'from_cell'), [c], {}),
        'Cell.begin_parse().copy': lambda it, c: call(it, call(it, c, 'begin_parse'), 'copy'),
        'Cell.copy().begin_parse': lambda it, c: call(it, call(it, c, 'copy'), 'begin_parse'),
    }
    broutes = {
        'Cell.to_builder': lambda it, c: call(it, c, 'to_builder'),
        'Cell.begin_parse().to_builder': lambda it, c: call(it, call(it, c, 'begin_parse'), 'to_builder'),
        'Builder.store_cell(c)': lambda it, c: call(it, builder(it), 'store_cell', c),
        'Builder.store_slice(c.begin_parse())': lambda it, c: call(it, builder(it), 'store_slice', call(it, c, 'begin_parse')),
    }
    it0 = Interp(prog)
    for rname, mk in routes.items():
        for mname in slice_mutators(it0):
            it = Interp(prog)
            c, kids = mk_source(it)
            before = snap(it, c)
            try:
                s = mk(it, c)
                slice_mutators(it)[mname](s)
                if mname.startswith('load') and mname not in ('load_ref', 'load_maybe_ref'):
                    slice_mutators(it)[mname](s)
            except RaiseEx:
                pass
            run.evaluations += 1
            same = snap(it, c) == before
            run.check(same, 'D1', rname if not same else f'{rname}+{mname}', f'after {mname} on the slice from {rname} the cell ' + ('is unchanged' if same else 'HAS CHANGED (shared container)'), wc,
                      witness=dict(route=rname, op=mname))
    for rname, mk in broutes.items():
        for mname in builder_mutators(it0):
            it = Interp(prog)
            c, kids = mk_source(it)
            before = snap(it, c)
            try:
                b = mk(it, c)
                builder_mutators(it)[mname](b)
            except RaiseEx:
                pass
            run.evaluations += 1
            same = snap(it, c) == before
            run.check(same, 'D1', rname if not same else f'{rname}+{mname}', f'after {mname} on the builder from {rname} the cell ' + ('is unchanged' if same else 'HAS CHANGED'), wc,
                      witness=dict(route=rname, op=mname))
    # the builder a cell came from / to_slice / end_cell twice
    for mname in builder_mutators(it0):
        it = Interp(prog)
        b = builder(it)
        call(it, b, 'store_bits', cm.data_bits(40, 'd'))
        call(it, b, 'store_ref', cm.leaf(it, 1, 'r'))
        c = call(it, b, 'end_cell')
        s = call(it, b, 'to_slice')
        before, sbefore = snap(it, c), snap_slice(it, s)
        try:
            builder_mutators(it)[mname](b)
        except RaiseEx:
            pass
        same = snap(it, c) == before
        run.check(same, 'D1', 'Builder.end_cell' if not same else f'Builder.end_cell+{mname}', f'after {mname} on the originating builder the cell ' + ('is unchanged' if same else 'HAS CHANGED'),
                  prog.where(prog.method('Builder', 'end_cell')), witness=dict(op=mname))
        same = snap_slice(it, s) == sbefore
        run.check(same, 'D1b', 'Builder.to_slice' if not same else f'Builder.to_slice+{mname}', f'after {mname} on the builder its earlier slice ' + ('is unchanged' if same else 'HAS CHANGED'),
                  prog.where(prog.method('Builder', 'to_slice')))
        run.evaluations += 1
    # slice -> cell / copy / builder isolation, both directions
    for mname in slice_mutators(it0):
        it = Interp(prog)
        c, kids = mk_source(it)
        s = call(it, c, 'begin_parse')
        c2 = call(it, s, 'to_cell')
        s2 = call(it, s, 'copy')
        b2 = call(it, s, 'to_builder')
        bc, bs2, bb2 = snap(it, c2), snap_slice(it, s2), snap_builder(it, b2)
        try:
            slice_mutators(it)[mname](s)
        except RaiseEx:
            pass
        for what, now, was, cons in (('Slice.to_cell', snap(it, c2), bc, 'Slice.to_cell'), ('Slice.copy', snap_slice(it, s2), bs2, 'Slice.copy'),
                                     ('Slice.to_builder', snap_builder(it, b2), bb2, 'Slice.to_builder')):
            same = now == was
            run.check(same, 'D1b', cons if not same else f'{what}+{mname}', f'after {mname} on the source slice, the result of {what} ' + ('is unchanged' if same else 'HAS CHANGED'), wc)
        # other direction: mutate the copy, the original slice must not move
        it = Interp(prog)
        c, kids = mk_source(it)
        s = call(it, c, 'begin_parse')
        s2 = call(it, s, 'copy')
        bs = snap_slice(it, s)
        try:
            slice_mutators(it)[mname](s2)
        except RaiseEx:
            pass
        same = snap_slice(it, s) == bs
        run.check(same, 'D1b', 'Slice.copy' if not same else f'Slice.copy<-{mname}', f'after {mname} on a copy the original slice ' + ('is unchanged' if same else 'HAS CHANGED'), wc)
        run.evaluations += 2
    # an operation that takes a slice / cell as its *argument* reads it: the argument is the same afterwards, and a second use gives the same result
    readers_of_slice = {
        'Builder.store_slice(s)': lambda it, s: call(it, builder(it), 'store_slice', s),
        'Slice.to_builder()': lambda it, s: call(it, s, 'to_builder'),
        'Slice.to_cell()': lambda it, s: call(it, s, 'to_cell'),
        'Slice.copy()': lambda it, s: call(it, s, 'copy'),
    }
    for name, fn in readers_of_slice.items():
        it = Interp(prog)
        c, kids = mk_source(it)
        s = call(it, c, 'begin_parse')
        call(it, s, 'load_uint', K(2))
        if kids:
            call(it, s, 'load_ref')
        bs = snap_slice(it, s)
        try:
            r1 = fn(it, s)
            mid = snap_slice(it, s)
            r2 = fn(it, s)
            k1, k2 = (repr(bocrun.ckey(it, r)) for r in (r1, r2))
            same = mid == bs and snap_slice(it, s) == bs and k1 == k2
            why = f'the argument slice is {"unchanged" if mid == bs else "CHANGED (bits/refs/cursor " + str(mid)[:60] + " vs " + str(bs)[:60] + ")"}; a second call gives {"the same" if k1 == k2 else "a DIFFERENT"} result'
        except RaiseEx as e:
            same, why = False, f'raises {e} (second use of the same slice)'
        run.check(same, 'D1b', name.split('(')[0] + '[argument]' if not same else f'argument kept: {name}', f'{name} twice on a partly read slice with references left: {why}', wc)
        run.evaluations += 2
    it = Interp(prog)
    c, kids = mk_source(it)
    before = snap(it, c)
    call(it, builder(it), 'store_cell', c)
    call(it, builder(it), 'store_ref', c)
    same = snap(it, c) == before
    run.check(same, 'D1b', 'Builder.store_cell[argument]' if not same else 'argument kept: store_cell / store_ref', f'the stored cell is {"unchanged" if same else "CHANGED"}', wc)
    # plain bitarray construction: later mutation of the caller's bitarray, and no mutation of it by the cell
    for b_ in (5, 8):
        it = Interp(prog)
        ba = cm.data_bits(b_, 'plain')
        c = cm.new_cell(it, ba, [])
        mid = ba.desc()
        before = snap(it, c)
        call(it, c, 'get_data_bytes') if prog.method('Cell', 'get_data_bytes', required=False) else None
        it.getattr(c, 'hash')
        call(it, c, 'to_boc')
        ok_in = ba.desc() == cm.data_bits(b_, 'plain').desc() and ba.desc() == mid
        run.check(ok_in, 'D2', 'Cell.__init__(plain bitarray)' if not ok_in else f'plain-input-kept[{b_}]',
                  f"the caller's {b_}-bit bitarray is {'unchanged' if ok_in else 'MUTATED'} by constructing / hashing / serialising the cell", wc)
        ba._push(Seg(1, 'k', '1'))
        same = snap(it, c) == before
        run.check(same, 'D1', 'Cell.__init__(plain bitarray)' if not same else f'plain-isolated[{b_}]',
                  "appending to the caller's bitarray afterwards " + ('does not change the cell' if same else 'CHANGES the cell'), wc)
    # ---- D2 repeated observation
    it = Interp(prog)
    c, kids = mk_source(it)
    before = snap(it, c)
    for nb in (0, 3, 8, 61):
        src = cm.data_bits(nb, 'own')
        cc = cm.new_cell(it, cm.tvm_bits(it, src.copy()), [])
        got = snap(it, cc)[0]
        run.check(got == src.desc(), 'D2', 'Cell.__init__' if got != src.desc() else f'data-as-given[{nb}]',
                  f'a cell built from {nb} data bits holds {got}' + ('' if got == src.desc() else ' - its own data was modified while hashing'), wc)
    obs = {
        'hash': lambda: it.getattr(c, 'hash'),
        'get_hash(0)': lambda: call(it, c, 'get_hash', K(0)),
        'get_depth(0)': lambda: call(it, c, 'get_depth', K(0)),
        'calculate_representation_hash': lambda: call(it, c, 'calculate_representation_hash'),
        'to_boc()': lambda: call(it, c, 'to_boc'),
        'to_boc(idx,crc)': lambda: call(it, c, 'to_boc', K(True), K(True)),
        'order()': lambda: ListV(list(call(it, c, 'order').keyobj.values())) if isinstance(call(it, c, 'order'), DictV) else call(it, c, 'order'),
        '__hash__': lambda: it.models.builtin(it, 'hash', [c], {}, None),
        '__repr__': lambda: call(it, c, '__repr__'),
        'begin_parse': lambda: K(snap_slice(it, call(it, c, 'begin_parse'))),
        'copy': lambda: K(snap(it, call(it, c, 'copy'))),
    }
    sym_state = (it, c, before)
    for name, fn in obs.items():
        it, c, before = sym_state
        try:
            try:
                a1 = fn()
                a2 = fn()
                a3 = fn()
            except Fail as e:
                # not interpretable over symbolic content (e.g. a checksum routine the interpreter has no summary for): the same
                # observation on a tree with concrete content - the obligation is about mutation, which does not depend on the bits
                it = Interp(prog)
                c, kids = mk_source(it, concrete=True)
                before = snap(it, c)
                try:
                    a1 = fn()
                    a2 = fn()
                    a3 = fn()
                except Fail as e2:
                    raise AnalysisError(f'Cell.{name} not interpretable: {e} / on concrete content: {e2}')
                run.info(f'Cell.{name}: observed on concrete content ({str(e)[:80]})')
            same_res = vrepr(a1) == vrepr(a2) == vrepr(a3)
        except RaiseEx as e:
            run.fail('D2', f'Cell.{name}', f'raises {e}', wc)
            continue
        unchanged = snap(it, c) == before
        good = same_res and unchanged
        run.check(good, 'D2', f'Cell.{name}' if not good else f'repeat:{name}',
                  f'{name} x3: results {"identical" if same_res else "DIFFER between calls"}; cell {"unchanged" if unchanged else "CHANGED"}'
                  + ('' if same_res else f' ({vrepr(a1)[:60]} / {vrepr(a2)[:60]})'), wc)
        run.evaluations += 3
    # order() on another cell first must not leak into this one (state between calls)
    it = Interp(prog)
    c, kids = mk_source(it)
    other, _ = mk_source(it)
    r1 = call(it, c, 'order')
    n1 = len(r1.d) if isinstance(r1, DictV) else None
    call(it, other, 'order')
    r2 = call(it, c, 'order')
    n2 = len(r2.d) if isinstance(r2, DictV) else None
    same = n1 == n2 == 3
    run.check(same, 'D3', 'Cell.order' if not same else 'order-no-leak', f'order() of a 3-cell tree returns {n1} then {n2} entries after ordering another tree in between', prog.where(prog.method('Cell', 'order')))

    # end_cell() is a snapshot of the builder as it is now, also after its content was REPLACED through the public setters by content of
    # the same size (a remembered cell judged "still valid" by the amount of bits and references would be the old content)
    it = Interp(prog)
    try:
        b = builder(it)
        call(it, b, 'store_uint', K(0xA5), K(8))
        kid_a, kid_b = cm.new_cell(it, cm.tvm_bits(it, BA([Seg(4, 'k', '1010')])), []), cm.new_cell(it, cm.tvm_bits(it, BA([Seg(4, 'k', '0101')])), [])
        call(it, b, 'store_ref', kid_a)
        first = call(it, b, 'end_cell')
        it.setattr(b, 'bits', cm.tvm_bits(it, BA([Seg(8, 'k', '00111100')])))
        it.setattr(b, 'refs', ListV([kid_b]))
        second = call(it, b, 'end_cell')
        viaslice = call(it, b, 'to_slice')
        s2 = snap(it, second)
        good = s2[0] == BA([Seg(8, 'k', '00111100')]).desc() and s2[1] == (id(kid_b),) and snap_slice(it, viaslice)[0] == s2[0]
        why = (f'builder content replaced through the bits / refs setters (same sizes) after a first end_cell(): the second end_cell() holds '
               f'{s2[0]} over {"the new" if s2[1] == (id(kid_b),) else "the OLD"} reference' + ('' if good else ' - not the content of the builder at the time of the call'))
    except RaiseEx as e:
        good, why = False, f'raises {e}'
    run.check(good, 'D3', 'Builder.end_cell[after the content was replaced]' if not good else 'end_cell is a snapshot of the current content', why, prog.where(prog.method('Builder', 'end_cell')))
    # what order() hands out belongs to the caller: collecting another root into it (the documented use of the parameter), or clearing it,
    # changes nothing the cell reports or serialises later
    it = Interp(prog)
    c, kids = mk_source(it, concrete=True)
    other, _ = mk_source(it, concrete=True)
    try:
        boc0 = vrepr(call(it, c, 'to_boc'))
        got = call(it, c, 'order')
        call(it, other, 'order', got)
        r3 = call(it, c, 'order')
        n3 = len(r3.d) if isinstance(r3, DictV) else None
        boc1 = vrepr(call(it, c, 'to_boc'))
        if isinstance(r3, DictV):
            it.call(it.getattr(r3, 'clear'), [], {})
        r4 = call(it, c, 'order')
        n4 = len(r4.d) if isinstance(r4, DictV) else None
        boc2 = vrepr(call(it, c, 'to_boc'))
        same = n3 == 3 and n4 == 3 and boc0 == boc1 == boc2
        why = (f'a.order() handed to b.order(...): a.order() then has {n3} entries (3 expected), after clearing what it returned {n4}; '
               f'to_boc() {"unchanged" if boc0 == boc1 == boc2 else "CHANGED"}')
    except RaiseEx as e:
        same, why = False, f'after the caller used the dictionary order() returned, order() / to_boc() raise {e}'
    run.check(same, 'D3', 'Cell.order[result handed out]' if not same else 'order-result-belongs-to-the-caller', why, prog.where(prog.method('Cell', 'order')))

    # ================= (2) syntactic effect rules
    nfun = 0
    for f in prog.all_functions():
        nfun += 1
        node = f.node
        a = node.args
        params = a.posonlyargs + a.args
        defaults = dict(zip([p.arg for p in params[len(params) - len(a.defaults):]], a.defaults))
        defaults.update({p.arg: d for p, d in zip(a.kwonlyargs, a.kw_defaults) if d is not None})
        for pname, d in defaults.items():
            mutable = isinstance(d, (ast.Dict, ast.List, ast.Set, ast.ListComp, ast.DictComp)) or \
                (isinstance(d, ast.Call) and isinstance(d.func, ast.Name) and d.func.id in ('dict', 'list', 'set', 'bytearray', 'bitarray', 'TvmBitarray'))
            if not mutable:
                continue
            uses = effects_on_name(node, pname)
            if uses:
                run.fail('D3', f'{f.qual}({pname}=<mutable default>)', f'mutable default argument `{pname}={ast.unparse(d)}` is {uses[0]}: state is carried between calls',
                         prog.where(f))
            else:
                run.ok('D3', f'{f.qual}({pname}) default unused-for-state')
    # module-level / class-level containers mutated from functions
    for mname, m in prog.modules.items():
        def is_mutable_expr(e):
            if isinstance(e, (ast.Dict, ast.List, ast.Set, ast.ListComp, ast.DictComp, ast.SetComp)):
                return True
            if isinstance(e, ast.Call):
                fn_ = e.func
                nm_ = fn_.id if isinstance(fn_, ast.Name) else fn_.attr if isinstance(fn_, ast.Attribute) else None
                if nm_ in ('dict', 'list', 'set', 'bytearray', 'bitarray', 'defaultdict', 'OrderedDict', 'deque', 'Counter', 'TvmBitarray'):
                    return True
                # an instance of a class of the package that is (or wraps) a mutable container: VmTuple([]), HashMap(8), Builder() ...
                c_ = prog.classes.get(nm_)
                if c_ is not None and (nm_ in ('Builder', 'HashMap', 'Slice') or any(set(prog.ext_bases(k_)) & {'list', 'dict', 'set', 'bitarray', 'bytearray'} for k_ in prog.mro(c_))):
                    return True
            return False
        mutables = {n for n, e in m.consts.items() if is_mutable_expr(e)}
        # module-level INSTANCES of package classes (other than Cell, which is immutable): an object every caller would share if a function
        # handed it out - `return _NIL_TUPLE` - whatever its class looks like inside
        shared_objs = set()
        for n_, e_ in m.consts.items():
            if isinstance(e_, ast.Call):
                fn_ = e_.func
                cn_ = fn_.id if isinstance(fn_, ast.Name) else fn_.value.id if isinstance(fn_, ast.Attribute) and isinstance(fn_.value, ast.Name) else None
                k_ = prog.classes.get(cn_)
                if k_ is not None and cn_ not in ('Cell', 'LevelMask') and not set(prog.ext_bases(k_)) & {'Enum', 'IntEnum', 'Exception'}:
                    shared_objs.add(n_)
        for f in prog.all_functions():
            if f.module != mname:
                continue
            local_ = {x.arg for x in f.node.args.args} | {n.id for n in ast.walk(f.node) if isinstance(n, ast.Name) and isinstance(n.ctx, ast.Store)}
            for n in ast.walk(f.node):
                if isinstance(n, ast.Return) and isinstance(n.value, ast.Name) and n.value.id in (shared_objs | mutables) and n.value.id not in local_:
                    run.fail('D3', f'{f.qual}:returns {n.value.id}', f'hands out the module-level object `{n.value.id}` itself: every caller gets the same mutable object, '
                             f'what one of them does to it is seen by all later callers', prog.where(n, f.module))
        memo_ok = {nm_: memo_transparent(prog, m, mname, nm_) for nm_ in mutables}
        for f in prog.all_functions():
            if f.module != mname:
                continue
            local = {x.arg for x in f.node.args.args} | {n.id for n in ast.walk(f.node) if isinstance(n, ast.Name) and isinstance(n.ctx, ast.Store)}
            # local aliases of a module-level container: `nil = _NIL` ... `nil.append(x)`
            alias = {}
            for n in ast.walk(f.node):
                if isinstance(n, ast.Assign) and len(n.targets) == 1 and isinstance(n.targets[0], ast.Name) and isinstance(n.value, ast.Name) \
                        and n.value.id in mutables and n.value.id not in local:
                    alias[n.targets[0].id] = n.value.id
            for n in ast.walk(f.node):
                nm = None
                if isinstance(n, ast.Call) and isinstance(n.func, ast.Attribute) and n.func.attr in MUTATORS and isinstance(n.func.value, ast.Name):
                    nm = n.func.value.id
                elif isinstance(n, ast.Subscript) and isinstance(n.ctx, (ast.Store, ast.Del)) and isinstance(n.value, ast.Name):
                    nm = n.value.id
                elif isinstance(n, ast.Global):
                    for g in n.names:
                        run.fail('D3', f'{f.qual}:global {g}', 'function rebinds a module-level name', prog.where(n, f.module))
                nm = alias.get(nm, nm) if nm in alias else nm
                if nm and nm in mutables and (nm not in local or nm in alias.values()):
                    if memo_ok.get(nm) is True:
                        run.ok('D3', f'{f.qual}:{nm} (memo keyed by every input)')
                        continue
                    run.fail('D3', f'{f.qual}:{nm}', f'mutates the module-level container `{nm}`: `{ast.unparse(n)[:50]}`' +
                             (f' ({memo_ok[nm]})' if isinstance(memo_ok.get(nm), str) else ''), prog.where(n, f.module))
    for c in prog.classes.values():
        cmut = {n for n, e in c.class_attrs.items() if isinstance(e, (ast.Dict, ast.List, ast.Set))}
        if not cmut:
            continue
        for f in prog.all_functions():
            if f.name in ('__init_subclass__', '__set_name__', '__class_getitem__'):
                continue        # run while classes are being defined (import time), once per class: not state carried between calls
            # local aliases of a class-level container: `layout = cls._LAYOUT` ... `layout['burned'] = ...`
            calias = {}
            for n in ast.walk(f.node):
                if isinstance(n, ast.Assign) and len(n.targets) == 1 and isinstance(n.targets[0], ast.Name) and isinstance(n.value, ast.Attribute) \
                        and n.value.attr in cmut and isinstance(n.value.value, ast.Name):
                    calias[n.targets[0].id] = n.value
            for n in ast.walk(f.node):
                tgt = None
                if isinstance(n, ast.Call) and isinstance(n.func, ast.Attribute) and n.func.attr in MUTATORS and isinstance(n.func.value, ast.Attribute):
                    tgt = n.func.value
                elif isinstance(n, ast.Subscript) and isinstance(n.ctx, (ast.Store, ast.Del)) and isinstance(n.value, ast.Attribute):
                    tgt = n.value
                elif isinstance(n, ast.Call) and isinstance(n.func, ast.Attribute) and n.func.attr in MUTATORS and isinstance(n.func.value, ast.Name) and n.func.value.id in calias:
                    tgt = calias[n.func.value.id]
                elif isinstance(n, ast.Subscript) and isinstance(n.ctx, (ast.Store, ast.Del)) and isinstance(n.value, ast.Name) and n.value.id in calias:
                    tgt = calias[n.value.id]
                if tgt is not None and tgt.attr in cmut and isinstance(tgt.value, ast.Name) and \
                        (tgt.value.id in (c.name, 'cls') or (tgt.value.id == 'self' and f.cls is not None and prog.is_subclass(f.cls, c.name) and
                                                             not assigns_self_attr(prog, f.cls, tgt.attr))):
                    run.fail('D3', f'{f.qual}:{c.name}.{tgt.attr}', f'mutates the class-level container {c.name}.{tgt.attr}', prog.where(n, f.module))
    # a function that REBINDS a class attribute (cls.X = / cls.X += / ClassName.X -= / type(self).X = ...) writes process-wide state.
    # accepted shapes: (a) a counter stepped and un-stepped around a block on every path - `X += k` directly followed by
    # `try: ... finally: X -= k`; (b) a once-only table: assignment under a guard on the attribute itself whose value mentions no parameter
    def class_attr_target(t, f):
        if not isinstance(t, ast.Attribute):
            return None
        v = t.value
        if isinstance(v, ast.Name) and (v.id in prog.classes or (v.id == 'cls' and f.cls is not None and f.node.args.args and f.node.args.args[0].arg == 'cls')):
            return f'{v.id if v.id != "cls" else f.cls.name}.{t.attr}'
        if isinstance(v, ast.Attribute) and v.attr == '__class__' and isinstance(v.value, ast.Name) and v.value.id == 'self':
            return f'{f.cls.name if f.cls else "?"}.{t.attr}'
        if isinstance(v, ast.Call) and isinstance(v.func, ast.Name) and v.func.id == 'type' and len(v.args) == 1 and isinstance(v.args[0], ast.Name) and v.args[0].id == 'self':
            return f'{f.cls.name if f.cls else "?"}.{t.attr}'
        return None

    def blocks_of(node):
        for x in ast.walk(node):
            for fld in ('body', 'orelse', 'finalbody'):
                b = getattr(x, fld, None)
                if isinstance(b, list) and b and isinstance(b[0], ast.stmt):
                    yield x, fld, b
            for h in getattr(x, 'handlers', []):
                yield h, 'body', h.body
    nwrites = 0
    for f in prog.all_functions():
        if f.name in ('__init_subclass__', '__set_name__', '__class_getitem__'):
            continue            # run while classes are being defined (import time), once per class: not state carried between calls
        params = {a.arg for a in f.node.args.args + f.node.args.kwonlyargs} - {'cls', 'self'}
        restored = set()        # ids of AugAssign nodes that are the restoring half of an accepted pair
        verdicts = {}
        for owner, fld, block in blocks_of(f.node):
            for i, st in enumerate(block):
                if isinstance(st, ast.AugAssign) and class_attr_target(st.target, f):
                    key = ast.unparse(st.target)
                    nxt = block[i + 1] if i + 1 < len(block) else None
                    inverse = {ast.Add: ast.Sub, ast.Sub: ast.Add}.get(type(st.op))
                    pair = None
                    if isinstance(nxt, ast.Try) and inverse is not None:
                        for r in nxt.finalbody:
                            if isinstance(r, ast.AugAssign) and ast.unparse(r.target) == key and isinstance(r.op, inverse) and ast.unparse(r.value) == ast.unparse(st.value):
                                pair = r
                    if pair is not None:
                        restored.add(id(pair))
                        verdicts[id(st)] = (True, st, 'stepped and restored in the `finally` of the block that follows')
                    elif id(st) not in restored:
                        verdicts.setdefault(id(st), (False, st, 'steps a class-level attribute; it is not restored on every path (no try/finally around what follows)'))
                elif isinstance(st, ast.Assign):
                    for t in st.targets:
                        if class_attr_target(t, f):
                            guard_ok = isinstance(owner, ast.If) and fld == 'body' and any(
                                isinstance(x, ast.Attribute) and x.attr == t.attr for x in ast.walk(owner.test))
                            names = {x.id for x in ast.walk(st.value) if isinstance(x, ast.Name)}
                            if guard_ok and not (names & params):
                                verdicts[id(st)] = (True, st, 'once-only table: guarded by a test of the attribute, value mentions no parameter')
                            else:
                                verdicts[id(st)] = (False, st, 'rebinds a class-level attribute' + (' with a value that depends on a parameter' if names & params else ' unconditionally'))
        for ident, (ok_, st, why) in verdicts.items():
            if id(st) in restored:
                continue
            nwrites += 1
            tgt = class_attr_target(st.target if isinstance(st, ast.AugAssign) else [t for t in st.targets if class_attr_target(t, f)][0], f)
            run.check(ok_, 'D3', f'{f.qual}:{tgt}', f'`{ast.unparse(st)[:60]}`: {why}' + ('' if ok_ else ' - state is carried between calls'), prog.where(st, f.module))
    # memoising decorators keep results between calls.  That is invisible only if the cache key determines everything the function reads:
    # a parameter whose class compares (__eq__/__hash__) fewer attributes than the function reads from it makes a later call return the
    # result of an earlier, different argument; a returned mutable object is shared between all callers.
    for f in prog.all_functions():
        decs = []
        for d in getattr(f.node, 'decorator_list', []):
            d0 = d.func if isinstance(d, ast.Call) else d
            nm = d0.id if isinstance(d0, ast.Name) else d0.attr if isinstance(d0, ast.Attribute) else None
            if nm in ('lru_cache', 'cache', 'cached_property', 'memoize', 'memoized'):
                decs.append(nm)
        if not decs or decs == ['cached_property']:
            continue
        problems = []
        for p in f.node.args.posonlyargs + f.node.args.args + f.node.args.kwonlyargs:
            reads = {n.attr for n in ast.walk(f.node) if isinstance(n, ast.Attribute) and isinstance(n.value, ast.Name) and n.value.id == p.arg}
            ann = p.annotation
            cname = ann.id if isinstance(ann, ast.Name) else ann.value if isinstance(ann, ast.Constant) and isinstance(ann.value, str) else None
            cls = prog.classes.get(cname) if cname else None
            if cls is None and reads and p.arg not in ('self', 'cls'):
                # unannotated: the package classes that have every attribute read
                cands = [c for c in prog.classes.values() if reads <= (set(c.methods) | self_attrs(c))]
                cls = cands[0] if len(cands) == 1 else None
            if cls is None:
                continue
            c_eq, m_eq = prog.find_method(cls, '__eq__')
            c_h, m_h = prog.find_method(cls, '__hash__')
            if m_eq is None and m_h is None:
                if reads:
                    problems.append(f'`{p.arg}`: {cls.name} objects are cached by identity while the function reads their attributes {sorted(reads)} - a later mutation of the same object returns the stale result')
                continue
            keyed = set()
            for m in (m_eq, m_h):
                if m is not None:
                    keyed |= {n.attr for n in ast.walk(m) if isinstance(n, ast.Attribute) and isinstance(n.value, ast.Name) and n.value.id in ('self', m.args.args[0].arg)}
            missing = sorted(a for a in reads - keyed if a not in cls.methods or 'property' in FuncRef(cls.methods[a], cls.module, cls).decorators())
            if missing:
                problems.append(f'`{p.arg}`: {cls.name}.__eq__/__hash__ look at {sorted(keyed)} only, the function also reads {missing} - two arguments that differ there share one cache entry')
        # the cached VALUE: a mutable container built by the function is one object for all callers - a caller that changes "its" result
        # (reverse / append / item store ...) changes what every later call returns
        def builds_mutable(e, local):
            if isinstance(e, (ast.List, ast.Dict, ast.Set, ast.ListComp, ast.DictComp, ast.SetComp)):
                return True
            if isinstance(e, ast.Call) and isinstance(e.func, ast.Name) and e.func.id in ('list', 'dict', 'set', 'bytearray', 'defaultdict', 'OrderedDict', 'deque'):
                return True
            return isinstance(e, ast.Name) and e.id in local
        local_mut = {t.id for n in ast.walk(f.node) if isinstance(n, ast.Assign) and builds_mutable(n.value, ()) for t in n.targets if isinstance(t, ast.Name)}
        if any(isinstance(n, ast.Return) and n.value is not None and builds_mutable(n.value, local_mut) for n in ast.walk(f.node)):
            users = []
            for g in prog.all_functions():
                bound = {t.id for n in ast.walk(g.node) if isinstance(n, ast.Assign) and isinstance(n.value, ast.Call)
                         and (getattr(n.value.func, 'id', None) == f.name or getattr(n.value.func, 'attr', None) == f.name)
                         for t in n.targets if isinstance(t, ast.Name)}
                for n in ast.walk(g.node):
                    if isinstance(n, ast.Call) and isinstance(n.func, ast.Attribute) and n.func.attr in MUTATORS and isinstance(n.func.value, ast.Name) and n.func.value.id in bound:
                        users.append((g, n))
                    elif isinstance(n, ast.Subscript) and isinstance(n.ctx, (ast.Store, ast.Del)) and isinstance(n.value, ast.Name) and n.value.id in bound:
                        users.append((g, n))
                    elif isinstance(n, ast.AugAssign) and isinstance(n.target, ast.Name) and n.target.id in bound:
                        users.append((g, n))
            if users:
                g, n = users[0]
                problems.append(f'the cached result is a mutable container and {g.qual} changes it in place (`{ast.unparse(n)[:40]}`): every later call with the same arguments returns the changed object')
            else:
                run.info(f'{f.qual}@{decs[0]} returns a mutable container shared by all callers with equal arguments; no caller in the package changes it')
        if problems:
            run.fail('D3', f'{f.qual}@{decs[0]}', f'memoised with @{decs[0]}: ' + '; '.join(problems), prog.where(f))
        else:
            run.ok('D3', f'{f.qual}@{decs[0]}', 'cache key determines every attribute the function reads')
    run.ok('D3', 'package-wide effect scan', f'{nfun} functions scanned for mutable defaults / global / class state / memoising decorators')
    run.count('functions_scanned', nfun)

    # ---- D4 serialisers must not mutate caller-held containers
    targets = []
    for c in prog.classes.values():
        if prog.is_subclass(c, 'TlbScheme') or c.name in ('Cell', 'HashMap', 'TlSchemas', 'BlockIdExt', 'BlockId', 'Address', 'ExternalAddress'):
            for mname in ('serialize', 'to_boc', 'order', 'to_cell', 'to_bytes', 'to_dict', 'to_str', 'serialize_field', '__hash__', '__eq__', '__repr__'):
                if mname in c.methods:
                    targets.append(FuncRef(c.methods[mname], c.module, c))
    bad = 0
    for f in targets:
        for why, n in input_mutations(f):
            bad += 1
            run.fail('D4', f.qual, f'{why}: `{ast.unparse(n)[:60]}`', prog.where(n, f.module))
    if not bad:
        run.ok('D4', 'serialisers', f'{len(targets)} serialiser / observer methods: none mutates a container reachable from self or a parameter')
    run.count('serialisers_scanned', len(targets))
    if len(targets) < 100:
        raise AnalysisError(f'only {len(targets)} serialiser methods found; expected > 100')


def effects_on_name(fn, name):
    """how a parameter's (shared) default object can carry state: mutated in place, returned, stored, or passed on"""
    out = []
    rebinds = [n for n in ast.walk(fn) if isinstance(n, ast.Name) and n.id == name and isinstance(n.ctx, ast.Store)]
    for n in ast.walk(fn):
        if isinstance(n, ast.Call) and isinstance(n.func, ast.Attribute) and isinstance(n.func.value, ast.Name) and n.func.value.id == name and n.func.attr in MUTATORS:
            out.append(f'mutated in place (.{n.func.attr})')
        elif isinstance(n, ast.Subscript) and isinstance(n.ctx, (ast.Store, ast.Del)) and isinstance(n.value, ast.Name) and n.value.id == name:
            out.append('mutated in place (item assignment)')
        elif isinstance(n, ast.AugAssign) and isinstance(n.target, ast.Name) and n.target.id == name:
            out.append('mutated in place (augmented assignment)')
        elif isinstance(n, ast.Return) and isinstance(n.value, ast.Name) and n.value.id == name:
            out.append('returned to the caller')
        elif isinstance(n, ast.Assign) and isinstance(n.value, ast.Name) and n.value.id == name and any(isinstance(t, ast.Attribute) for t in n.targets):
            out.append('stored in an attribute')
        elif isinstance(n, ast.AnnAssign) and isinstance(n.value, ast.Name) and n.value.id == name and isinstance(n.target, ast.Attribute):
            out.append('stored in an attribute')
        elif isinstance(n, ast.Call) and any(isinstance(a, ast.Name) and a.id == name for a in list(n.args) + [k.value for k in n.keywords]) and \
                not (isinstance(n.func, ast.Name) and n.func.id in ('len', 'isinstance', 'list', 'dict', 'set', 'tuple', 'sorted', 'bool', 'str', 'repr', 'print')):
            out.append(f'passed on to {ast.unparse(n.func)[:30]}() (escapes)')
    if out and rebinds:
        # `if x is None: x = {}` style guards make the default harmless only if the default itself is None - it is not here
        pass
    return out


def assigns_self_attr(prog, cls, attr):
    for c in prog.mro(cls):
        init = c.methods.get('__init__')
        if init is None:
            continue
        for n in ast.walk(init):
            if isinstance(n, ast.Attribute) and isinstance(n.ctx, ast.Store) and n.attr == attr and isinstance(n.value, ast.Name) and n.value.id == 'self':
                return True
    return False


def input_mutations(f):
    """mutating operations inside f whose receiver is rooted at self.<attr> or at a parameter (flow-insensitive alias roots)"""
    fn = f.node
    params = {a.arg for a in fn.args.args + fn.args.kwonlyargs} - {'self', 'cls'}
    roots = {p: {'param:' + p} for p in params}
    roots['self'] = {'self'}

    def root_of(e):
        if isinstance(e, ast.Name):
            return set(roots.get(e.id, ()))
        if isinstance(e, ast.Attribute):
            r = root_of(e.value)
            return {x + '.' + e.attr if x == 'self' else x for x in r}
        if isinstance(e, ast.Subscript):
            return root_of(e.value)
        if isinstance(e, ast.IfExp):
            return root_of(e.body) | root_of(e.orelse)
        return set()      # calls, literals, comprehensions, arithmetic: fresh values
    for _ in range(3):
        for n in ast.walk(fn):
            if isinstance(n, ast.Assign) and len(n.targets) == 1 and isinstance(n.targets[0], ast.Name):
                r = root_of(n.value)
                if r:
                    roots.setdefault(n.targets[0].id, set()).update(r)
            elif isinstance(n, ast.For) and isinstance(n.target, ast.Name):
                r = root_of(n.iter)
                if r:
                    roots.setdefault(n.target.id, set()).update(r)
    out = []
    for n in ast.walk(fn):
        recv = None
        what = None
        if isinstance(n, ast.Call) and isinstance(n.func, ast.Attribute) and n.func.attr in MUTATORS:
            recv, what = n.func.value, f'.{n.func.attr}()'
        elif isinstance(n, ast.Subscript) and isinstance(n.ctx, (ast.Store, ast.Del)):
            recv, what = n.value, 'item assignment/deletion'
        elif isinstance(n, ast.AugAssign) and isinstance(n.target, (ast.Attribute, ast.Subscript)):
            recv, what = n.target, 'augmented assignment'
        if recv is None:
            continue
        r = {x for x in root_of(recv) if x != 'self'}
        # builders passed in to be written to are outputs, not inputs
        r = {x for x in r if not (x.startswith('param:') and x.split(':')[1] in ('builder', 'to', 'dest', 'result'))}
        if isinstance(n, ast.AugAssign) and isinstance(n.target, ast.Attribute):
            continue    # rebinding an attribute with an immutable value (+= on bytes/int) is not a container mutation
        if r:
            out.append((f'{what} on a value reachable from {sorted(r)[0]}', n))
    return out
