"""runs every claimed check (quick) against one seeded change; prints which fire. usage: seedall.py <seed name> [pids...]"""
import json, os, subprocess, sys, tempfile, shutil
VERIF = os.path.dirname(os.path.dirname(os.path.abspath(__file__)))
BASE = os.environ.get('SEED_BASE', 'HEAD')     # the /repo commit the stored patch was written against
name = sys.argv[1]
pids = sys.argv[2:] or [c['property_id'] for c in json.load(open(os.path.join(VERIF, 'MANIFEST.json')))['checks']]
sys.path.insert(0, os.path.join(VERIF, 'tools'))
import wt as _wt
wt, _info = _wt.make(os.path.join(VERIF, 'seeded', name), f'seedall_{name}')
print(name, _info)
try:
    from concurrent.futures import ThreadPoolExecutor
    def one(pid):
        outd = tempfile.mkdtemp(prefix='seedout_', dir='/tmp')
        r = subprocess.run([os.path.join(VERIF, 'check'), pid, '--tier', os.environ.get('TIER', 'quick')], cwd=VERIF, env=dict(os.environ, VERIF_REPO=wt, VERIF_OUT=outd), capture_output=True, text=True)
        shutil.rmtree(outd, ignore_errors=True)
        lines = r.stdout.splitlines()
        diag = [lines[i-1][:200] for i, l in enumerate(lines) if l.startswith('VIOLATION') and i > 0][:2] + [l[:200] for l in lines if 'ANALYSIS-ERROR' in l][:1]
        return pid, r.returncode, diag
    with ThreadPoolExecutor(12) as ex:
        for pid, rc, diag in ex.map(one, pids):
            print(name, pid, {0: 'silent', 1: 'FIRE', 2: 'analysis-error'}.get(rc, rc), diag if rc else '')
finally:
    subprocess.run(f'git -C /repo worktree remove --force {wt}', shell=True)
