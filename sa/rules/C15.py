"""C15 - messages, state-inits and currency values serialise per block.tlb, never for lack of room, and round-trip.

D4 room + D1 writer conformance + round trip, exhaustively over the control space of MessageAny.serialize:
    header in {internal without / with extra currencies, external-in, external-out}
  x state-init in {absent} + all 32 shapes (split_depth?, special?, code?, data?, library?)
  x body bits in the boundary band around "fits inline" (computed per header/init from the code's own free-space) plus 0 and 1023
  x body references 0..4.
  The real Builder/Cell code is interpreted (capacity checks included), so a path that ends in a capacity exception IS the
  defect; the emitted cell is decoded as `Message Any` by the schema-directed decoder (exact consumption) and parsed back by
  MessageAny.deserialize; every field must come back (symbolic leaves as the same symbols).
D2 reader conformance of the message / state-init / currency / wallet / NFT classes (C16 typestate; both Either branches).
D1s stand-alone wrappers: StateInit, TickTock, CurrencyCollection, ExtraCurrencyCollection, HashUpdate, AccountStatus (tag
  table both ways), WalletV3Data, WalletV4Data, NftItemData, NftItemSaleFees, NftItemSaleData: writer decoded per schema and
  parsed back.
"""
import ast
import itertools
import multiprocessing as mp
import sys
from ..core import AnalysisError
from ..front import Program, FuncRef
from ..interp import Interp
from ..values import *
from ..tlbslice import *
from ..tlbdecode import decode, flat, Decoder, View
from .. import cellmodel as cm
from .. import bocrun
from . import C16

MANIFEST = dict(
    technique='abstract interpretation of MessageAny.serialize (real Builder capacity logic) over the complete header x state-init-shape x body-bits-boundary x body-refs control space; emitted cells decoded by a schema-directed decoder; typestate conformance of the readers; round trip through the package\'s own parser',
    text='Decides over all 3(+1) headers x 33 state-init shapes x body sizes at every inline/reference boundary x 0..4 body references that serialising never ends in a capacity error, that the cell is exactly a '
         '`Message Any` of block.tlb (decoded by an independent schema reading), that the package\'s parser returns the same header fields, state-init and body from it, and that the parser accepts both Either '
         'placements (typestate). The stand-alone wrappers (state-init, tick-tock, currencies, hash update, account status, wallet and NFT data) are checked the same way.'
         ' The parsed message serialises again to the cell it was parsed from, and its state-init to the StateInit cell that was sent.'
         ' The NFT wrappers keep anycast addresses as given (also when the other address is given as text); HighloadWalletData round-trips its old queries.'
         ' Extra-currency ids cover the whole unsigned 32-bit range (bit 31 set). A header edited after construction (value, grams, extras, fees, bounce, destination) serialises what the object holds now.'
         " Wrapper round trips are compared with what the object held before it was serialised (a serialiser that tidies the caller's containers in place does not hide a loss); extra currencies with amount 0 are entries like any other.",
    note='trusted: interpreter, bitarray model, TL-B lowering/decoder, bundled block.tlb (docstring schemas for wallet/NFT types). Addresses with anycast make headers longer than any encoding allows and are outside the enumerated space.',
    design_ref='DESIGN.md section 4 C15')

WRAPPERS = ('MessageAny', 'CommonMsgInfo', 'InternalMsgInfo', 'ExternalMsgInfo', 'ExternalOutMsgInfo', 'StateInit', 'TickTock', 'CurrencyCollection', 'ExtraCurrencyCollection',
            'HashUpdate', 'AccountStatus', 'WalletV3Data', 'WalletV4Data', 'HighloadWalletData', 'NftItemData', 'NftItemSaleFees', 'NftItemSaleData')


def addr(it, prog, wc=0, fill=0x11):
    a = Inst(prog.cls('Address'))
    a.attrs.update(wc=K(wc), hash_part=K(bytes([fill]) * 32), is_bounceable=K(True), is_test_only=K(False), anycast=K(None))
    return a


def ext_addr(it, prog, value=0xABCDE, n=20):
    return it.construct(prog.cls('ExternalAddress'), [K(value), K(n)], {})


def mk_info(it, prog, kind):
    CC, ECC = prog.cls('CurrencyCollection'), prog.cls('ExtraCurrencyCollection')
    lt = Sym('created_lt', ty='int', key=('created_lt',), not_none=True, lo=0, hi=(1 << 64) - 1)
    at = Sym('created_at', ty='int', key=('created_at',), not_none=True, lo=0, hi=(1 << 32) - 1)
    if kind.startswith('internal'):
        extra = DictV()
        if kind == 'internal+extra':
            for k_, v_ in ((7, 1000), ((1 << 31) + 1, 5)):
                extra.d[k_] = K(v_)
                extra.keyobj[k_] = K(k_)
        value = it.construct(CC, [K((1 << 120) - 1), it.construct(ECC, [extra], {})], {})
        return it.construct(prog.cls('InternalMsgInfo'), [], dict(ihr_disabled=K(True), bounce=K(False), bounced=K(False), src=addr(it, prog, 0, 0x11), dest=addr(it, prog, -1, 0x22),
                                                                   value=value, ihr_fee=K((1 << 120) - 1), fwd_fee=K(12345), created_lt=lt, created_at=at))
    if kind == 'external-in':
        return it.construct(prog.cls('ExternalMsgInfo'), [], dict(src=ext_addr(it, prog), dest=addr(it, prog, 0, 0x33), import_fee=K(0)))
    return it.construct(prog.cls('ExternalOutMsgInfo'), [], dict(src=addr(it, prog, 0, 0x44), dest=ext_addr(it, prog, 5, 3), created_lt=lt, created_at=at))


def mk_init(it, prog, shape):
    if shape is None:
        return K(None)
    sd, sp, code, data, lib = shape
    kw = {}
    # present-but-falsy values (split_depth 0, tick = tock = false) are valid `just` values and must not be written as `nothing`
    if sd:
        kw['split_depth'] = K(0 if (sp + code + data + lib) % 2 == 0 else 17)
    if sp:
        kw['special'] = it.construct(prog.cls('TickTock'), [K(bool(code)), K(False)], {})
    if code:
        kw['code'] = cm.new_cell(it, cm.tvm_bits(it, BA([Seg(8, 'k', '11001100')])), [])
    if data:
        kw['data'] = cm.new_cell(it, cm.tvm_bits(it, BA([Seg(9, 'k', '101010101')])), [])
    if lib:
        kw['library'] = cm.new_cell(it, cm.tvm_bits(it, BA([Seg(3, 'k', '111')])), [])
    return it.construct(prog.cls('StateInit'), [], kw)


def mk_body(it, nbits, nrefs):
    pat = ('1101001110' * 110)[:nbits]
    return cm.new_cell(it, cm.tvm_bits(it, BA([Seg(nbits, 'k', pat)] if nbits else [])), [cm.new_cell(it, cm.tvm_bits(it, BA([Seg(i + 1, 'k', '1' + '0' * i)])), []) for i in range(nrefs)])   # distinguishable children


def scenario(prog, db, kind, shape, nbits, nrefs):
    """-> (status, detail)"""
    it = Interp(prog)
    info, init, body = mk_info(it, prog, kind), mk_init(it, prog, shape), mk_body(it, nbits, nrefs)
    msg = it.construct(prog.cls('MessageAny'), [info, init, body], {})
    try:
        cell = cm.call_method(it, msg, 'serialize')
    except RaiseEx as e:
        return 'room', f'serialize raises {e.kind}: {str(e.what)[:70]}'
    nb = len(cell.attrs['bits'].native)
    nr = len(cell.attrs['refs'].items)
    if nb > 1023 or nr > 4:
        return 'room', f'produced a cell with {nb} bits / {nr} references'
    try:
        out = decode(it, db, cell, 'Message', [('id', 'Any')])
    except Mismatch as e:
        return 'layout', str(e)[:200]
    try:
        back = it.call(it.getattr(prog.cls('MessageAny'), 'deserialize'), [cm.call_method(it, cell, 'begin_parse')], {})
    except RaiseEx as e:
        return 'reader', f'MessageAny.deserialize raises {e}'
    diff = compare_msg(it, msg, back)
    if diff:
        return 'roundtrip', diff
    # the parsed message is a message like any other: serialising it again gives the same cell, and its parts serialise on their own
    try:
        again = cm.call_method(it, back, 'serialize')
    except RaiseEx as e:
        return 'reserialize', f'the parsed message cannot be serialised again: {e}'
    if bocrun.ckey(it, again) != bocrun.ckey(it, cell):
        return 'reserialize', 'serialising the parsed message gives a different cell than the one it was parsed from'
    binit = back.attrs.get('init')
    if isinstance(binit, Inst):
        try:
            ic = cm.call_method(it, binit, 'serialize')
            decode(it, db, ic, 'StateInit', [])
            want = cm.call_method(it, init, 'serialize')
            if bocrun.ckey(it, ic) != bocrun.ckey(it, want):
                return 'reserialize', 'the state-init of the parsed message serialises to a different cell than the state-init that was sent'
        except RaiseEx as e:
            return 'reserialize', f'the state-init of the parsed message cannot be serialised: {e}'
        except Mismatch as e:
            return 'reserialize', f'the state-init of the parsed message does not serialise to a StateInit cell: {str(e)[:140]}'
    return 'ok', f'{nb} bits, {nr} refs'


def attr_key(it, v):
    if isinstance(v, K):
        return ('k', v.v if not isinstance(v.v, bool) else int(v.v))
    if isinstance(v, Inst) and v.cls is not None:
        n = v.cls.name
        if n in ('Cell', 'Slice', 'Builder'):
            return ('cell', bocrun.ckey(it, v))
        if n == 'Address':
            ac = cm.field(it, v, 'anycast')
            ack = None if not isinstance(ac, Inst) else (attr_key(it, ac.attrs.get('depth')), attr_key(it, ac.attrs.get('rewrite_pfx')))
            return ('addr', attr_key(it, cm.field(it, v, 'wc')), attr_key(it, cm.field(it, v, 'hash_part')), ack)
        if n == 'ExternalAddress':
            return ('ext', attr_key(it, v.attrs.get('external_address')), attr_key(it, v.attrs.get('len')))
        return (n, tuple(sorted((k, attr_key(it, x)) for k, x in v.attrs.items() if k not in ('value_coins', 'cell'))))
    if isinstance(v, DictV):
        return ('dict', tuple(sorted((repr(k), attr_key(it, x)) for k, x in v.d.items())))
    return ('s', repr(it.vkey(v)))


def compare_msg(it, a, b):
    if not isinstance(b, Inst):
        return f'parser returned {vrepr(b)[:40]}'
    ia, ib = a.attrs['info'], b.attrs.get('info')
    if not isinstance(ib, Inst) or ib.cls.name != ia.cls.name:
        return f'header class {ib.cls.name if isinstance(ib, Inst) else ib} instead of {ia.cls.name}'
    for k, v in ia.attrs.items():
        if k == 'value_coins':
            continue
        x, y = attr_key(it, v), attr_key(it, ib.attrs.get(k))
        if k == 'value':
            x = ('cc', attr_key(it, v.attrs['grams']), attr_key(it, v.attrs['other'].attrs['dict']) if v.attrs['other'].attrs['dict'].d else ('none',))
            ob = ib.attrs.get(k)
            od = ob.attrs['other'].attrs['dict'] if isinstance(ob, Inst) else None
            y = ('cc', attr_key(it, ob.attrs['grams']), attr_key(it, od) if isinstance(od, DictV) and od.d else ('none',)) if isinstance(ob, Inst) else y
        if x != y:
            return f'header field {k}: stored {str(x)[:70]}, parsed {str(y)[:70]}'
    na, nb_ = a.attrs['init'], b.attrs.get('init')
    if isinstance(na, K) != isinstance(nb_, K):
        return f'state-init {"lost" if isinstance(nb_, K) else "appeared"}'
    if isinstance(na, Inst):
        for k in ('split_depth', 'special', 'code', 'data', 'library'):
            x, y = attr_key(it, na.attrs.get(k)), attr_key(it, nb_.attrs.get(k))
            if x != y:
                return f'state-init field {k}: stored {str(x)[:60]}, parsed {str(y)[:60]}'
    if bocrun.ckey(it, a.attrs['body']) != bocrun.ckey(it, b.attrs.get('body')):
        return 'body differs'
    return None


def _worker(arg):
    pkg, jobs, thorough = arg
    sys.setrecursionlimit(20000)
    prog = Program(pkg)
    db = C16.load_db(prog)
    classmap = build_classmap(prog)
    for cname, info in classmap.items():
        db.add(info['all'])
    out = []
    for kind, shape in jobs:
        # free space for the body as the code itself sees it: serialise with an empty body and measure the root
        it = Interp(prog)
        msg = it.construct(prog.cls('MessageAny'), [mk_info(it, prog, kind), mk_init(it, prog, shape), mk_body(it, 0, 0)], {})
        try:
            c0 = cm.call_method(it, msg, 'serialize')
            used = len(c0.attrs['bits'].native)
        except RaiseEx:
            used = 700
        free = 1023 - used          # bits available for an inline body
        sizes = sorted({0, 1, max(0, free - 1), max(0, free), min(1023, free + 1), min(1023, free + 2), 512, 1023}) if thorough else sorted({0, max(0, free), min(1023, free + 1), 1023})
        for nbits in sizes:
            for nrefs in range(5):
                st, detail = scenario(prog, db, kind, shape, nbits, nrefs)
                out.append((kind, shape, nbits, nrefs, st, detail))
    return out


def check(run):
    sys.setrecursionlimit(20000)
    prog = Program()
    thorough = run.tier == 'thorough'
    run.explanation = 'MessageAny.serialize interpreted over the complete control space with the real capacity logic; output decoded per block.tlb and parsed back; readers by typestate.'
    run.rule('D4', 'serialising a message never fails for lack of room (bits or references): parts that do not fit inline are moved into references', 1000)
    run.rule('D1', 'the emitted cell is exactly a `Message Any` per block.tlb (schema-directed decoding consumes it exactly)', 1000)
    run.rule('D5', 'MessageAny.deserialize(serialize(m)) returns the same header fields, state-init and body; serialising the parsed message again gives the same cell and its state-init serialises to the StateInit cell that was sent', 1000)
    run.rule('T', 'reader conformance (typestate, both Either placements): reads = schema fields in width, sign, order; exact consumption', 15)
    run.rule('D1s', 'stand-alone wrappers: writer output decodes per schema and parses back to the same field values', 14)
    run.trust('CPython ast', 'checker interpreter', 'bitarray model', 'sa/tlbslice.py + sa/tlbdecode.py', 'bundled block.tlb')
    run.exhaustive = True
    w = prog.where(prog.method('MessageAny', 'serialize'))
    kinds = ['internal', 'internal+extra', 'external-in', 'external-out']
    shapes = [None] + list(itertools.product((0, 1), repeat=5))
    jobs = [(k, s) for k in kinds for s in shapes]
    nproc = min(16, mp.cpu_count())
    with mp.Pool(nproc) as pool:
        results = [r for part in pool.map(_worker, [(prog.pkg, jobs[i::nproc], thorough) for i in range(nproc)]) for r in part]
    results.sort(key=lambda r: (r[0], str(r[1]), r[2], r[3]))
    fails = {}
    for kind, shape, nbits, nrefs, st, detail in results:
        run.evaluations += 1
        shp = 'no init' if shape is None else 'init(' + ''.join(n for n, b in zip(('depth,', 'special,', 'code,', 'data,', 'lib,'), shape) if b).rstrip(',') + ')'
        tag = f'{kind}, {shp}, body {nbits}b/{nrefs}r'
        if st == 'ok':
            for r in ('D4', 'D1', 'D5'):
                run.ok(r, tag, detail if r == 'D4' and nbits in (0, 1023) and nrefs == 4 else '')
        else:
            rule = {'room': 'D4', 'layout': 'D1', 'reader': 'D5', 'roundtrip': 'D5', 'reserialize': 'D5'}[st]
            cons = {'room': 'MessageAny.serialize[reference/bit budget]', 'layout': 'MessageAny.serialize[layout]', 'reader': 'MessageAny.deserialize', 'roundtrip': 'MessageAny round trip', 'reserialize': 'MessageAny parse-then-serialise'}[st]
            fails.setdefault((rule, cons), []).append((tag, detail))
    for (rule, cons), items in fails.items():
        tag, detail = items[0]
        run.fail(rule, cons, f'{tag}: {detail}  ({len(items)} of {len(results)} scenarios fail this way; e.g. also {items[-1][0]})', w, witness=dict(scenarios=[t for t, _ in items[:8]]))

    # ---- T readers
    db, classmap, res = C16.analyse(prog, only=set(WRAPPERS))
    C16.report(run, prog, res, lambda cname, module: True)

    # ---- D1s stand-alone wrappers
    wrappers(run, prog, db)


def history(run, prog, db):
    """a currency collection built without extras must stay without extras whatever happened to other collections before (no shared default)"""
    it = Interp(prog)
    CC = prog.cls('CurrencyCollection')
    a = it.construct(CC, [K(10)], {})
    try:
        da = a.attrs['other'].attrs['dict']
        it.setitem(da, K(7), K(3))              # the caller tops up collection A in place: a.other.dict[7] = 3
        b = it.construct(CC, [K(20)], {})
        cell = cm.call_method(it, b, 'serialize')
        out = dict(flat(decode(it, db, cell, 'CurrencyCollection')))
        nrefs = len(cell.attrs['refs'].items)
        parsed = it.call(it.getattr(CC, 'deserialize'), [cm.call_method(it, cm.call_method(it, it.construct(CC, [K(5)], {}), 'serialize'), 'begin_parse')], {})
        pd = parsed.attrs['other'].attrs['dict']
        ok = nrefs == 0 and (isinstance(pd, K) and pd.v is None or isinstance(pd, DictV) and not pd.d)
        why = f'collection B built after A was topped up: serialises with {nrefs} reference(s) (must be 0); a third one parses with extras {vrepr(pd)[:40]}'
    except RaiseEx as e:
        ok, why = False, f'raises {e}'
    except Mismatch as e:
        ok, why = False, f'a collection without extras does not decode as CurrencyCollection: {str(e)[:160]}'
    run.check(ok, 'D1s', 'CurrencyCollection[state shared between instances]' if not ok else 'history: collections without extras are independent', why, prog.where(prog.method('CurrencyCollection', '__init__')))


def edited(run, prog, db):
    """a message whose header was changed after construction (relay / bounce / fee deduction code does this) is a message like any
    other: what is serialised is what the object holds now, not what it held when it was built"""
    CC, ECC = prog.cls('CurrencyCollection'), prog.cls('ExtraCurrencyCollection')
    where = prog.where(prog.method('InternalMsgInfo', 'serialize'))

    def extras(it, d):
        dv = DictV()
        for k_, v_ in d.items():
            dv.d[k_] = K(v_)
            dv.keyobj[k_] = K(k_)
        return it.construct(ECC, [dv], {})
    edits = {
        'value replaced': lambda it, info: it.setattr(info, 'value', it.construct(CC, [K(777), extras(it, {3: 9})], {})),
        'value.grams changed in place': lambda it, info: it.setattr(info.attrs['value'], 'grams', K(55)),
        'value.other replaced': lambda it, info: it.setattr(info.attrs['value'], 'other', extras(it, {11: 4})),
        'fwd_fee changed': lambda it, info: it.setattr(info, 'fwd_fee', K(1)),
        'ihr_fee changed': lambda it, info: it.setattr(info, 'ihr_fee', K(2)),
        'bounce set': lambda it, info: it.setattr(info, 'bounce', K(True)),
        'dest replaced': lambda it, info: it.setattr(info, 'dest', addr(it, prog, 0, 0x33)),
    }
    for kind in ('internal', 'internal+extra'):
        for name, edit in edits.items():
            it = Interp(prog)
            info = mk_info(it, prog, kind)
            msg = it.construct(prog.cls('MessageAny'), [info, K(None), mk_body(it, 8, 0)], {})
            try:
                cm.call_method(it, msg, 'serialize')                # serialised once before the edit, as relay code does
                edit(it, info)
                cell = cm.call_method(it, msg, 'serialize')
                decode(it, db, cell, 'Message', [('id', 'Any')])
                back = it.call(it.getattr(prog.cls('MessageAny'), 'deserialize'), [cm.call_method(it, cell, 'begin_parse')], {})
                diff = compare_msg(it, msg, back)
                ok, why = diff is None, f'{kind}, {name}, then serialised: ' + ('the parser returns the message as it is now' if diff is None else f'{diff} - the cell carries a value the object no longer holds')
            except Mismatch as e:
                ok, why = False, f'{kind}, {name}: the cell does not follow the schema: {str(e)[:160]}'
            except RaiseEx as e:
                ok, why = False, f'{kind}, {name}: raises {e}'
            run.check(ok, 'D5', 'MessageAny.serialize[header edited after construction]' if not ok else f'edited: {kind}, {name}', why, where)
            run.evaluations += 1


def wrappers(run, prog, db):
    history(run, prog, db)
    edited(run, prog, db)
    def sym(n):
        return Sym(n, ty='int', key=('w', n), not_none=True, lo=0, hi=127)        # any small non-negative integer: fits every integer field of the wrappers

    def cases(it):
        out = []
        CC, ECC = prog.cls('CurrencyCollection'), prog.cls('ExtraCurrencyCollection')
        for shape in ((0, 0, 0, 0, 0), (1, 1, 1, 1, 1), (0, 1, 0, 1, 0), (1, 0, 1, 0, 1)):
            out.append(('StateInit', f'StateInit{shape}', mk_init(it, prog, shape), 'StateInit', ['split_depth', 'special', 'code', 'data', 'library']))
        for t in ((True, False), (False, True)):
            out.append(('TickTock', f'TickTock{t}', it.construct(prog.cls('TickTock'), [K(t[0]), K(t[1])], {}), 'TickTock', ['tick', 'tock']))
        for grams in (0, 1, (1 << 120) - 1):
            for extra in ({}, {5: 1, 9: (1 << 248) - 1}, {0: 1, (1 << 31) - 1: 2, 1 << 31: 3, (1 << 32) - 1: 4}, {7: 0}, {7: 0, 9: 3}):       # ids are 32-bit unsigned keys; an amount of 0 is an entry like any other
                d = DictV()
                for k, v in extra.items():
                    d.d[k] = K(v)
                    d.keyobj[k] = K(k)
                out.append(('CurrencyCollection', f'CurrencyCollection(grams={grams if grams < 9 else "2^120-1"}, extra={len(extra)})',
                            it.construct(CC, [K(grams), it.construct(ECC, [d], {})], {}), 'CurrencyCollection', ['grams']))
        H1, H2 = Sym('old', ty='bytes', n=32, key=('old',), not_none=True), Sym('new', ty='bytes', n=32, key=('new',), not_none=True)
        out.append(('HashUpdate', 'HashUpdate', it.construct(prog.cls('HashUpdate'), [H1, H2], {}), 'HASH_UPDATE', ['old_hash', 'new_hash'], [('id', 'Any')]))
        for t in ('uninitialized', 'frozen', 'active', 'nonexist'):
            out.append(('AccountStatus', f'AccountStatus[{t}]', it.construct(prog.cls('AccountStatus'), [K(t)], {}), 'AccountStatus', ['type_']))
        PK = Sym('pubkey', ty='bytes', n=32, key=('pk',), not_none=True)
        out.append(('WalletV3Data', 'WalletV3Data', it.construct(prog.cls('WalletV3Data'), [], dict(seqno=sym('seqno'), wallet_id=sym('wallet_id'), public_key=PK)), 'WalletV3Data', ['seqno', 'wallet_id', 'public_key']))
        for pl in (None, 'cell'):
            out.append(('WalletV4Data', f'WalletV4Data[plugins={pl}]', it.construct(prog.cls('WalletV4Data'), [], dict(seqno=sym('seqno'), wallet_id=sym('wallet_id'), public_key=PK,
                        plugins=K(None) if pl is None else cm.leaf(it, 0, 'plugins'))), 'WalletV4Data', ['seqno', 'wallet_id', 'public_key', 'plugins']))
        if prog.cls('HighloadWalletData', required=False) is not None:
            for nq in (0, 1, 2):
                qs = DictV()
                for j in range(nq):
                    key = (9 << 32) + j
                    m_ = it.construct(prog.cls('MessageAny'), [mk_info(it, prog, 'external-in'), K(None), mk_body(it, 8 * (j + 1), 0)], {})
                    qs.d[key] = it.construct(prog.cls('WalletMessage'), [K(3 + j), m_], {})
                    qs.keyobj[key] = K(key)
                hw = it.construct(prog.cls('HighloadWalletData'), [], dict(wallet_id=sym('wallet_id'), last_cleaned=sym('last_cleaned'), public_key=PK, old_queries=qs if nq else K(None)))
                hw.queries = nq
                out.append(('HighloadWalletData', f'HighloadWalletData[{nq} old queries]', hw, 'HighloadWalletData', ['wallet_id', 'last_cleaned', 'public_key']))
        out.append(('NftItemData', 'NftItemData', it.construct(prog.cls('NftItemData'), [], dict(index=sym('index'), collection_address=addr(it, prog, 0, 0x55), owner_address=addr(it, prog, -1, 0x66),
                    content=cm.leaf(it, 0, 'content'))), 'NftItemData', ['index', 'collection_address', 'owner_address', 'content']))
        # the same wrapper with anycast addresses (addr_std with `just anycast_info`): what is given is what is written and read back
        def any_addr(fill, depth, pfx):
            a_ = addr(it, prog, 0, fill)
            cm.call_method(it, a_, 'set_anycast', K(depth), K(pfx))
            return a_
        for owner_form in ('Address', 'str'):
            given = dict(index=sym('index'), collection_address=any_addr(0x55, 3, 5), owner_address=any_addr(0x66, 7, 0x55) if owner_form == 'Address' else K('0:' + '66' * 32),
                         content=cm.leaf(it, 0, 'content'))
            obj = it.construct(prog.cls('NftItemData'), [], dict(given))
            obj.given = {k: v for k, v in given.items() if not (isinstance(v, K) and isinstance(v.v, str))}
            out.append(('NftItemData', f'NftItemData[anycast, owner given as {owner_form}]', obj, 'NftItemData',
                        ['index', 'collection_address', 'content'] + (['owner_address'] if owner_form == 'Address' else [])))
        fees = it.construct(prog.cls('NftItemSaleFees'), [], dict(marketplace_fee_address=addr(it, prog, 0, 0x77), marketplace_fee=K(5), royalty_address=addr(it, prog, 0, 0x78), royalty_amount=K(1 << 64)))
        out.append(('NftItemSaleFees', 'NftItemSaleFees', fees, 'NftItemSaleFees', ['marketplace_fee_address', 'marketplace_fee', 'royalty_address', 'royalty_amount']))
        out.append(('NftItemSaleData', 'NftItemSaleData', it.construct(prog.cls('NftItemSaleData'), [], dict(is_complete=K(True), created_at=sym('created_at'), marketplace_address=addr(it, prog, 0, 0x79),
                    nft_address=addr(it, prog, 0, 0x7a), nft_owner_address=addr(it, prog, 0, 0x7b), full_price=K(10 ** 9), fees_cell=fees, can_deploy_by_external=K(False))), 'NftItemSaleData',
                    ['is_complete', 'created_at', 'marketplace_address', 'nft_address', 'nft_owner_address', 'full_price', 'can_deploy_by_external']))
        return out
    it0 = Interp(prog)
    n = len(cases(it0))
    for idx in range(n):
        it = Interp(prog)
        cname, tag, inst, tname, fields, *targs = cases(it)[idx]
        where = prog.where(prog.method(cname, 'serialize'))
        try:
            # what the object holds BEFORE it is serialised is what must come back (a serialiser that tidies the caller's containers in
            # place would otherwise be compared with its own leftovers)
            given = getattr(inst, 'given', {})
            held = {f: attr_key(it, given.get(f, inst.attrs.get(f))) for f in fields}
            ka_held = sorted((k, attr_key(it, v)) for k, v in inst.attrs['other'].attrs['dict'].d.items()) if cname == 'CurrencyCollection' else None
            cell = cm.call_method(it, inst, 'serialize')
            out = decode(it, db, cell, tname, targs[0] if targs else [])
            back = it.call(it.getattr(prog.cls(cname), 'deserialize'), [cm.call_method(it, cell, 'begin_parse')], {})
            diffs = [f for f in fields if held[f] != attr_key(it, back.attrs.get(f) if isinstance(back, Inst) else None)]
            diffs += [f'{f} (changed by serialize itself)' for f in fields if held[f] != attr_key(it, given.get(f, inst.attrs.get(f)))]
            if cname == 'HighloadWalletData':
                want_q = inst.attrs.get('old_queries')
                got_q = back.attrs.get('old_queries') if isinstance(back, Inst) else None
                wk = sorted(want_q.d) if isinstance(want_q, DictV) else []
                gk = sorted(k_.v if isinstance(k_, K) else repr(k_) for k_ in got_q.keyobj.values()) if isinstance(got_q, DictV) else []
                if wk != gk:
                    diffs.append(f'old_queries (keys given {wk}, read back {gk})')
                else:
                    for k_ in wk:
                        a_, b_ = want_q.d[k_], [v_ for kk, v_ in got_q.d.items() if got_q.keyobj[kk].v == k_][0]
                        if not (isinstance(b_, Inst) and attr_key(it, a_.attrs.get('send_mode')) == attr_key(it, b_.attrs.get('send_mode'))
                                and isinstance(b_.attrs.get('message'), Inst) and compare_msg(it, a_.attrs['message'], b_.attrs['message']) is None):
                            diffs.append(f'old_queries[{k_}]')
            if cname == 'CurrencyCollection':
                da, db_ = inst.attrs['other'].attrs['dict'], back.attrs['other'].attrs['dict']
                ka = ka_held
                kb = sorted((k, attr_key(it, v)) for k, v in db_.d.items()) if isinstance(db_, DictV) else []
                if ka != kb:
                    diffs.append(f'other.dict (held {ka}, read back {kb})'[:160])
                if sorted((k, attr_key(it, v)) for k, v in da.d.items()) != ka:
                    diffs.append('other.dict (the caller\'s dictionary was changed by serialize)')
            ok = not diffs
            why = 'decoded per schema: ' + '; '.join(f'{p}={vrepr(v)[:18] if not isinstance(v, tuple) else v[0]}' for p, v in flat(out)[:5]) + '; parsed back equal' if ok else f'fields differ after the round trip: {diffs}'
        except Mismatch as e:
            ok, why = False, f'writer output does not follow the schema: {str(e)[:200]}'
        except RaiseEx as e:
            ok, why = False, f'raises {e}'
        run.check(ok, 'D1s', f'{cname}.serialize/deserialize' if not ok else tag, f'{tag}: {why}', where)
        run.evaluations += 1
