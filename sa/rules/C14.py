"""C14 - TL serialisation inverts TL parsing and follows TL framing for the bundled schemas.

Every declaration of the bundled .tl files is registered by the package's own registrator (interpreted) and compared with
the checker's independent parse of the line (D0).  Then, for EVERY constructor whose field types the library supports, the
checker generates a well-typed value whose scalar leaves are opaque symbols (ints, 32-byte ids, byte strings of enumerated
lengths around the 253/254 and 4-byte-padding boundaries, texts, vectors, nested explicit / boxed / polymorphic objects, flag
combinations), interprets TlSchemas.serialize on it, compares the emitted byte layout (sa/rope.py) with the checker's own TL
encoder (D1/D2), interprets TlSchemas.deserialize on the result and demands the same value back with all bytes consumed (D3).
D4: block-id helpers (80-byte layout, dict form, hash/eq).
"""
import ast
import glob
import os
import sys
import zlib
import multiprocessing as mp
from ..core import AnalysisError, PKG
from ..front import Program, FuncRef
from ..interp import Interp
from ..values import *
from ..rope import Rope, install
from .. import cellmodel as cm

MANIFEST = dict(
    technique='abstract interpretation of TlRegistrator.register, TlSchemas.serialize / deserialize on generated well-typed symbolic values for every supported bundled constructor; emitted byte layout (ropes) vs an independent TL encoder; exhaustive base-type x value-kind dispatch; string-length boundary classes',
    text='Decides for every bundled constructor with supported field types (all, not a sample), for flag combinations all-present / none-present, that the serialised bytes equal the TL binary encoding '
         'computed by an independent encoder (little-endian id and integers, length-prefixed 4-byte-padded strings over all boundary lengths, vectors, boxed/bare nesting), that parsing returns the same '
         'value (symbolic leaves come back as the very same symbols) and consumes exactly all bytes; that the registrator reads every declaration as an independent parser does; and that block-id helpers '
         'tile 80 bytes losslessly and are hashable.'
         ' A second nat field next to the flag word gets the complementary bit pattern; the flag-only type `true` is covered; equal block ids built through different routes (bytes / hex, shard None / -2^63, from_bytes, from_dict) are one dictionary key.'
         ' One TlSchemas object serving many parses returns for given bytes what a fresh object returns, also after refused parses (D5). The short BlockId is usable as a dictionary key.',
    note='trusted: interpreter, rope model, the checker-side TL encoder (transcription of the TL binary rules). Assumption: byte-string payloads do not begin with a registered constructor id (the library\'s auto-deserialise '
         'feature would otherwise re-parse them by design). Not decided: recursion deeper than the generator bound, tonlib_api JSON-only types.',
    design_ref='DESIGN.md section 4 C14')

BASE = ('Bool', '#', 'int', 'long', 'int128', 'int256', 'string', 'bytes')
INTW = {'#': 4, 'int': 4, 'long': 8}
PSEUDO = BASE + ('vector', 'true', 'double', 'object', 'function', 'boolTrue', 'boolFalse', 'int32', 'int53', 'int64', 'secureString', 'secureBytes')
BYTE_LENS = [0, 1, 2, 3, 4, 5, 7, 8, 252, 253, 254, 255, 256, 257, 1000, 65535, 65536]


# ------------------------------------------------------------------ checker-side schema parsing
def schema_lines():
    out = []
    files = sorted(glob.glob(os.path.join(PKG, 'tl', 'schemas', '*.tl')))
    if not files:
        raise AnalysisError('no bundled .tl schemas found')
    for f in files:
        temp = ''
        for line in open(f, encoding='utf-8'):
            st = line.strip()
            if not st or st.startswith('//') or st.startswith('---'):
                continue
            if ';' not in st:
                temp += st + ' '
                continue
            st = temp + st
            temp = ''
            out.append((os.path.basename(f), st))
    return out


def parse_decl(line):
    """independent parse of one TL declaration -> dict(name, id, args(list of pairs), cls) or None for built-in pseudo declarations"""
    body = line.split('//')[0].strip()
    if not body.endswith(';'):
        body = body[:body.index(';') + 1] if ';' in body else body
    text = body.rstrip(';').strip()
    left, _, right = text.rpartition('=')
    cls = right.strip()
    toks = left.split()
    if not toks:
        return None
    head = toks[0]
    name, cid = head, None
    if '#' in head:
        name, hx = head.split('#', 1)
        cid = bytes.fromhex(hx)
    rest = left.strip()[len(head):].strip()
    args = []
    depth = 0
    cur = ''
    for ch in rest + ' ':
        if ch == '(':
            depth += 1
        if ch == ')':
            depth -= 1
        if ch == ' ' and depth == 0:
            if cur:
                if ':' in cur:
                    k, t = cur.split(':', 1)
                    args.append((k, t))
                cur = ''
        else:
            cur += ch
    if cid is None:
        norm = body.replace(';', '').replace('(', '').replace(')', '').strip()
        cid = zlib.crc32(norm.encode()).to_bytes(4, 'big')
    return dict(name=name, id=cid, args=args, cls=cls, line=line)


class Registry:
    def __init__(self, decls):
        self.decls = decls
        self.by_name = {}
        self.by_cls = {}
        for d in decls:
            self.by_name[d['name']] = d
            self.by_cls.setdefault(d['cls'], []).append(d)

    def supported_type(self, t, seen=()):
        """can the library (de)serialise a field of this type? -> None if yes, else a reason"""
        if '?' in t:
            pre, t = t.split('?', 1)
            if not (pre.startswith('mode.') or pre.startswith('flags.')) or not pre.split('.')[1].isdigit():
                return f'flag reference {pre}'
        if t in BASE:
            return None
        if t == 'true' and 'true' in self.by_name and not self.by_name['true']['args']:
            return None         # the empty bare object used for flag-only fields (`mode.N?true`): encoded as nothing
        if t.startswith('('):
            inner = t[1:-1].split()
            if len(inner) != 2 or inner[0] != 'vector':
                return f'type expression {t}'
            return self.supported_type(inner[1], seen)
        if t in seen:
            return None
        if t in self.by_cls:
            for d in self.by_cls[t]:
                r = self.supported_decl(d, seen + (t,))
                if r:
                    return r
            return None
        if t in self.by_name:
            return self.supported_decl(self.by_name[t], seen + (t,))
        return f'unknown type {t}'

    def supported_decl(self, d, seen=()):
        if d['name'] in PSEUDO:
            return 'built-in pseudo declaration'
        flagged = [t for _, t in d['args'] if '?' in t]
        names = [k for k, _ in d['args']]
        if flagged and not ('mode' in names or 'flags' in names):
            return 'optional fields without a mode/flags field'
        for k, t in d['args']:
            if t == '#' and k not in ('mode', 'flags') and False:
                return None
            r = self.supported_type(t, seen)
            if r:
                return r
        return None


# ------------------------------------------------------------------ value generation + independent encoder
class Gen:
    def __init__(self, reg, it, variant):
        self.reg, self.it, self.variant = reg, it, variant
        self.falsy = variant == 4      # every leaf is the falsy value of its type (0, False, '', b'', []): present, and to be written as such
        self.long_vectors = variant == 5   # every vector has three items and no optional field is present: the items are as short as the schema allows
        self.n = 0
        self.too_deep = False

    def fresh(self, kind, **meta):
        self.n += 1
        return Sym(f'{kind}{self.n}', **meta, key=('leaf', kind, self.n), not_none=True)

    def tl_bytes(self, payload_rope_parts, n):
        head = [(K(bytes([n])), 1)] if n <= 253 else [(K(b'\xfe' + n.to_bytes(3, 'little')), 4)]
        tot = head[0][1] + n
        pad = (-tot) % 4
        return head + payload_rope_parts + ([(K(b'\x00' * pad), pad)] if pad else [])

    def value(self, t, depth):
        """-> (value for the writer, expected parse result, expected encoding as rope parts)"""
        it = self.it
        if t in INTW and self.falsy:
            return K(0), K(0), [(K(b'\x00' * INTW[t]), INTW[t])]
        if t in INTW:
            # `#` is TL's nat: an unsigned 32-bit word; int / long are signed
            v = self.fresh('i', ty='int', **(dict(lo=0, hi=(1 << 32) - 1) if t == '#' else {}))
            return v, v, [(Term('to_bytes', v, K(INTW[t]), K('little'), K(t != '#')), INTW[t])]
        if t == 'Bool':
            b = bool((self.n + self.variant) % 2) and not self.falsy
            self.n += 1
            return K(b), K(b), [(K(b'\xb5ur\x99' if b else b'7\x97y\xbc'), 4)]
        if t in ('int128', 'int256'):
            n = 16 if t == 'int128' else 32
            x = self.fresh('h', ty='bytes', n=n)
            return Term('hex', x), Term('hex', x), [(x, n)]
        if t in ('bytes', 'string'):
            L = BYTE_LENS[(self.n * 7 + self.variant * 3) % len(BYTE_LENS)] if not self.falsy else 0
            x = self.fresh('b', ty='bytes', n=L)
            enc = self.tl_bytes([(x, L)] if L else [], L)
            if t == 'bytes':
                return (x if L else K(b'')), (x if L else K(b'')), enc
            s = Term('decode', x) if L else K('')
            return s, s, enc
        if t.startswith('('):
            sub = t[1:-1].split()[1]
            k = 3 if self.long_vectors else (self.n + self.variant) % 4 if not self.falsy else 0
            self.n += 1
            vals, exps, enc = [], [], [(K(k.to_bytes(4, 'little')), 4)]
            for _ in range(k):
                v, e, r = self.value(sub, depth + 1)
                # bare (explicit) element types are written without their id inside a vector; class types are boxed
                vals.append(v)
                exps.append(e)
                enc += r
            return ListV(vals), exps, enc
        if t in self.reg.by_cls:
            ds = self.reg.by_cls[t]
            d = ds[(self.n + self.variant) % len(ds)] if len(ds) > 1 else ds[0]
            self.n += 1
            v, e, r = self.obj(d, depth + 1)
            return v, e, [(K(d['id'][::-1]), 4)] + r
        if t in self.reg.by_name:
            d = self.reg.by_name[t]
            v, e, r = self.obj(d, depth + 1)
            # a bare (explicitly typed) object: its constructor is known from the schema, the '@type' key in the parse result is optional
            e = dict(e)
            e['@type?'] = e.pop('@type')
            return v, e, r
        raise AnalysisError(f'generator: unsupported type {t}')

    def obj(self, d, depth):
        if depth > 6:
            self.too_deep = True
            raise RecursionError
        val = DictV({'@type': K(d['name'])})
        exp = {'@type': d['name']}
        enc = []
        names = [k for k, _ in d['args']]
        optional = [(k, t) for k, t in d['args'] if '?' in t]
        present_all = self.variant % 2 == 0
        flagval = 0
        if optional:
            for k, t in optional:
                idx = int(t.split('?')[0].split('.')[1])
                if present_all:
                    flagval |= 1 << idx
        for k, t in d['args']:
            if t == '#' and k in ('mode', 'flags') and optional:
                val.d[k] = K(flagval)
                exp[k] = flagval
                enc.append((K(flagval.to_bytes(4, 'little', signed=False)), 4))
                continue
            if '?' in t:
                if not present_all:
                    continue
                t = t.split('?', 1)[1]
            if t == '#' and optional:
                # a second nat field next to the flag word: give it the complementary bit pattern on the flag positions, so that a parser
                # or writer that takes the presence bits from the wrong field is seen
                top = max(int(tt.split('?')[0].split('.')[1]) for _, tt in optional)
                other = ((~flagval) & ((1 << (top + 1)) - 1)) | (1 << 20)
                val.d[k] = K(other)
                exp[k] = other
                enc.append((K(other.to_bytes(4, 'little', signed=True)), 4))
                continue
            v, e, r = self.value(t, depth)
            val.d[k] = v
            exp[k] = e
            enc += r
        val.keyobj = {k: K(k) for k in val.d}
        return val, exp, enc


def norm(it, v):
    """abstract value -> comparable python structure"""
    if isinstance(v, DictV):
        return {(k if not isinstance(k, tuple) else repr(k)): norm(it, x) for k, x in v.d.items()}
    if isinstance(v, ListV):
        return [norm(it, x) for x in v.items]
    if isinstance(v, K):
        return ('K', v.v if not isinstance(v.v, bool) else bool(v.v))
    if isinstance(v, dict):
        return {k: norm(it, x) for k, x in v.items()}
    if isinstance(v, list):
        return [norm(it, x) for x in v]
    if isinstance(v, (str, int, bytes, bool)):
        return ('K', v)
    return ('S', repr(it.vkey(v)))


def first_diff(a, b, path=''):
    if type(a) is not type(b):
        return f'{path or "value"}: {str(a)[:60]} vs {str(b)[:60]}'
    if isinstance(a, dict):
        if '@type?' in b:
            b = dict(b)
            opt = b.pop('@type?')
            if '@type' in a:
                b['@type'] = opt
        for k in list(a) + [k for k in b if k not in a]:
            if k not in a or k not in b:
                return f'{path}.{k}: {"missing in the parse result" if k not in a else "unexpected in the parse result"}'
            r = first_diff(a[k], b[k], f'{path}.{k}')
            if r:
                return r
        return None
    if isinstance(a, list):
        if len(a) != len(b):
            return f'{path}: {len(a)} vs {len(b)} items'
        for i, (x, y) in enumerate(zip(a, b)):
            r = first_diff(x, y, f'{path}[{i}]')
            if r:
                return r
        return None
    return None if a == b else f'{path or "value"}: {str(a)[:70]} vs {str(b)[:70]}'


def mk(prog):
    it = install(Interp(prog))
    it.INJECTIVE_KEYS = True
    return it


def build_schemas(prog, it, lines):
    reg = it.construct(prog.cls('TlRegistrator'), [], {})
    objs = []
    for _, l in lines:
        it.steps = 0
        objs.append(it.call(it.getattr(reg, 'register'), [K(l)], {}))
    S = it.construct(prog.cls('TlSchemas'), [ListV(objs)], {})
    return S, objs


def _worker(arg):
    pkg, names, variants = arg
    sys.setrecursionlimit(20000)
    prog = Program(pkg)
    lines = schema_lines()
    decls = [d for d in (parse_decl(l) for _, l in lines) if d]
    reg = Registry(decls)
    it0 = mk(prog)
    S, _ = build_schemas(prog, it0, lines)
    out = []
    for name in names:
        d = reg.by_name[name]
        for variant in variants:
            if variant == 4 and not any('?' in t for _, t in d['args']):
                continue        # the falsy-values variant is about flag-selected fields
            if variant == 5 and not any(t.startswith('(vector') for _, t in d['args']):
                continue        # the long-vectors variant is about vector fields
            it = mk(prog)
            g = Gen(reg, it, variant)
            try:
                val, exp, enc = g.obj(d, 0)
            except RecursionError:
                out.append((name, variant, 'skip', 'recursive type deeper than the generator bound'))
                continue
            want = Rope([(K(d['id'][::-1]), 4)] + enc)
            it.steps = 0
            try:
                sch = cm.call_method(it, S, 'get_by_name', K(name))
                ser = cm.call_method(it, S, 'serialize', sch, val)
            except RaiseEx as e:
                out.append((name, variant, 'ser-raise', f'serialize raises {e}'))
                continue
            except Fail as e:
                out.append((name, variant, 'fail', f'serialize: {e}'))
                continue
            got = Rope.of(it, ser)
            if got is None or repr(got) != repr(want):
                out.append((name, variant, 'layout', f'emitted {str(got)[:160]}; TL encoding {str(want)[:160]}'))
                continue
            try:
                res = cm.call_method(it, S, 'deserialize', ser)
            except RaiseEx as e:
                out.append((name, variant, 'deser-raise', f'deserialize raises {e}'))
                continue
            except Fail as e:
                # the input is a conformant frame whose structure (ids, lengths, counts, flags) is concrete: a parser that follows the
                # framing never makes control depend on a payload symbol.  A symbolic loop bound / slice bound therefore is a mis-framing.
                if any(x in str(e) for x in ('range of', 'symbolic bounds', 'rope index')):
                    out.append((name, variant, 'misframed', f'the parser derives a count/length from payload bytes ({str(e)[:100]})'))
                else:
                    out.append((name, variant, 'fail', f'deserialize: {e}'))
                continue
            back, used = res.items
            diff = first_diff(norm(it, back), norm(it, exp))
            if diff:
                out.append((name, variant, 'value', f'parse result differs at {diff}'))
            elif not (isinstance(used, K) and used.v == want.n):
                out.append((name, variant, 'consumed', f'consumed {vrepr(used)} of {want.n} bytes'))
            else:
                out.append((name, variant, 'ok', f'{want.n} bytes'))
    return out


def check(run):
    sys.setrecursionlimit(20000)
    prog = Program()
    thorough = run.tier == 'thorough'
    run.explanation = 'registrator, serialiser and parser interpreted on generated symbolic values for every supported bundled constructor; byte layouts compared with an independent TL encoder.'
    run.rule('D0', 'TlRegistrator.register reads every bundled declaration as an independent parser does (name, explicit or CRC32 id, field list in order, class); well-known ids match', 700)
    run.rule('D1', 'serialize(constructor, value) == TL binary encoding (LE id, LE ints, Bool magics, length-prefixed 4-byte-padded strings, vectors, boxed/bare nesting, optional fields by flag bit)', 400)
    run.rule('D3', 'deserialize(serialize(v)) == (v, len): every leaf comes back as the same symbol, all bytes consumed', 400)
    run.rule('D1b', 'base-type dispatch: every base type x accepted value kind is written and read back (no type silently dropped)', 12)
    run.rule('D2', 'string framing over every length class 0..260 and the 3-byte length form; padding counted from the length prefix', 30)
    run.rule('D4', 'block-id helpers: 80-byte layout round trip, dict round trip, __hash__ is an int consistent with __eq__', 6)
    run.trust('CPython ast', 'checker interpreter', 'sa/rope.py', 'checker-side TL parser/encoder (TL binary serialisation rules)', 'zlib.crc32')
    run.assume('byte-string payloads do not start with a registered constructor id (auto-deserialise is a documented feature)')
    lines = schema_lines()
    decls = [parse_decl(l) for _, l in lines]
    wreg = prog.where(prog.method('TlRegistrator', 'register'))
    wser = prog.where(prog.method('TlSchemas', 'serialize_field'))
    wdes = prog.where(prog.method('TlSchemas', 'deserialize'))

    # ---- D0
    it = mk(prog)
    S, objs = build_schemas(prog, it, lines)
    nb = 0
    for (fname, l), d, o in zip(lines, decls, objs):
        if d is None or d['name'] in PSEUDO:
            continue
        got = dict(name=o.attrs.get('_name'), id=o.attrs.get('_id'), cls=o.attrs.get('_class_name'), args=o.attrs.get('_args'))
        args = [(k, v.v) for k, v in got['args'].d.items()] if isinstance(got['args'], DictV) and all(isinstance(v, K) for v in got['args'].d.values()) else None
        ok = isinstance(got['name'], K) and got['name'].v == d['name'] and isinstance(got['id'], K) and got['id'].v == d['id'] and args == d['args']
        if ok and not (isinstance(got['cls'], K) and got['cls'].v == d['cls']):
            # the result class only matters for fields that refer to it; reported, not demanded (such fields fail D1 on their own if affected)
            run.info(f'{d["name"]}: result class registered as {vrepr(got["cls"])!r}, declaration says {d["cls"]!r}')
        run.evaluations += 1
        if ok:
            run.ok('D0', f'{fname}:{d["name"]}')
        else:
            nb += 1
            if nb <= 3:
                run.fail('D0', 'TlRegistrator.register', f'{l[:90]}: registered as name={vrepr(got["name"])} id={vrepr(got["id"])} class={vrepr(got["cls"])} args={str(args)[:80]}; '
                         f'independent parse: {d["name"]} {d["id"].hex()} {d["cls"]} {str(d["args"])[:80]}', wreg)
    reg = Registry([d for d in decls if d])
    known = {'pub.ed25519': '4813b4c6', 'pub.aes': '2dbcadd4', 'dht.ping': 'cbeb3f18', 'adnl.packetContents': 'd142cd89', 'adnl.message.answer': '0fac8416'}
    for nm, hx in known.items():
        d = reg.by_name.get(nm)
        run.check(d is not None and d['id'].hex() == hx, 'D0', f'id[{nm}]', f'{nm}: {d["id"].hex() if d else None} (well-known {hx})', wreg)

    # ---- D1/D3 every supported constructor
    names, unsupported = [], {}
    for d in reg.decls:
        r = reg.supported_decl(d)
        if r:
            unsupported.setdefault(r.split(' ')[0] + ' ' + ' '.join(r.split(' ')[1:2]), []).append(d['name'])
        else:
            names.append(d['name'])
    names = list(dict.fromkeys(names))
    run.count('constructors_total', len(reg.decls))
    run.count('constructors_supported', len(names))
    run.info(f'{len(names)} of {len(reg.decls)} bundled declarations have only supported field types; unsupported classes: ' +
             '; '.join(f'{k}: {len(v)}' for k, v in sorted(unsupported.items(), key=lambda kv: -len(kv[1]))[:8]))
    variants = (0, 1, 2, 3, 4, 5) if thorough else (0, 1, 4, 5)
    nproc = min(16, mp.cpu_count())
    chunks = [(prog.pkg, names[i::nproc], variants) for i in range(nproc)]
    with mp.Pool(nproc) as pool:
        results = [r for part in pool.map(_worker, chunks) for r in part]
    fails = {}
    for name, variant, kind, detail in sorted(results):
        run.evaluations += 1
        tag = f'{name}[variant {variant}]'
        if kind == 'ok':
            run.ok('D1', tag, detail if variant == 0 and len(run.samples) < 8 else '')
            run.ok('D3', tag)
        elif kind == 'skip':
            run.count('skipped_recursive')
        elif kind == 'fail':
            raise AnalysisError(f'{tag}: {detail}')
        else:
            rule = 'D1' if kind in ('layout', 'ser-raise') else 'D3'
            d = reg.by_name[name]
            # construct = the field type class that fails, so that one defect is one finding
            cause = classify(d, detail)
            fails.setdefault((rule, cause), []).append((tag, detail))
    for (rule, cause), items in fails.items():
        tag, detail = items[0]
        run.fail(rule, f'TlSchemas.{"serialize" if rule == "D1" else "deserialize"}[{cause}]', f'{tag}: {detail} ({len(items)} constructor/variant case(s) fail this way)', wser if rule == 'D1' else wdes, witness=dict(constructor=tag))

    # ---- D1b base-type dispatch x value kind, D2 string framing
    check_base_types(run, prog, wser, wdes)
    check_block_ids(run, prog)
    check_history(run, prog, wdes)


def classify(d, detail):
    types = {t.split('?')[-1] for _, t in d['args']}
    if any(t.startswith('(vector ') and t[1:-1].split()[1] in BASE for t in types) and ('misframed' in detail or 'payload bytes' in detail or 'items' in detail or '[0]' in detail):
        return 'vector of a base type'
    for t in ('string', 'bytes', 'int256', 'int128', 'Bool', 'long', 'int'):
        if t in types and (t in detail or True):
            if t == 'string' and ('string' in types):
                return 'string field'
    if any(t.startswith('(') for t in types):
        return 'vector field'
    return 'field types ' + ','.join(sorted(types))[:60]


def one_field_schema(prog, it, t, extra=()):
    lines = [('x', f'test.sub a:int = test.Sub;'), ('x', f'test.obj f:{t} tail:int = test.Obj;')] + [('x', l) for l in extra]
    S, _ = build_schemas(prog, it, lines)
    return S


def check_base_types(run, prog, wser, wdes):
    tail = 0x01020304
    for t, kinds in (('Bool', ['true', 'false']), ('#', ['int']), ('int', ['int', 'negative']), ('long', ['int', 'negative']), ('int128', ['hex']), ('int256', ['hex']),
                     ('string', ['str']), ('bytes', ['bytes', 'object'])):
        for kind in kinds:
            it = mk(prog)
            S = one_field_schema(prog, it, t)
            if kind in ('true', 'false'):
                v = K(kind == 'true')
                exp = v
                enc = [(K(b'\xb5ur\x99' if v.v else b'7\x97y\xbc'), 4)]
            elif kind == 'int':
                v = Sym('v', ty='int', key=('v',), **(dict(lo=0, hi=(1 << 32) - 1) if t == '#' else {}))
                exp = v
                enc = [(Term('to_bytes', v, K(INTW[t]), K('little'), K(t != '#')), INTW[t])]
            elif kind == 'negative':
                v = K(-2)
                exp = v
                enc = [(K((-2).to_bytes(INTW[t], 'little', signed=True)), INTW[t])]
            elif kind == 'hex':
                n = 16 if t == 'int128' else 32
                x = Sym('X', ty='bytes', n=n, key=('X',))
                v = exp = Term('hex', x)
                enc = [(x, n)]
            elif kind == 'str':
                x = Sym('T', ty='bytes', n=5, key=('T',))
                v = exp = Term('decode', x)
                enc = [(K(b'\x05'), 1), (x, 5), (K(b'\x00\x00'), 2)]
            elif kind == 'bytes':
                x = Sym('B', ty='bytes', n=6, key=('B',))
                v = exp = x
                enc = [(K(b'\x06'), 1), (x, 6), (K(b'\x00'), 1)]
            else:   # nested object given for a bytes field: serialised boxed, then framed as bytes
                a = Sym('a', ty='int', key=('a',))
                v = DictV({'@type': K('test.sub'), 'a': a})
                v.keyobj = {k: K(k) for k in v.d}
                sub_id = zlib.crc32(b'test.sub a:int = test.Sub').to_bytes(4, 'little')
                enc = [(K(b'\x08' + sub_id), 5), (Term('to_bytes', a, K(4), K('little'), K(True)), 4), (K(b'\x00\x00\x00'), 3)]
                exp = {'@type': 'test.sub', 'a': a}
            data = DictV({'f': v, 'tail': K(tail)})
            data.keyobj = {k: K(k) for k in data.d}
            obj_id = zlib.crc32(f'test.obj f:{t} tail:int = test.Obj'.encode()).to_bytes(4, 'little')
            want = Rope([(K(obj_id), 4)] + enc + [(K(tail.to_bytes(4, 'little')), 4)])
            tag = f'{t}<-{kind}'
            try:
                ser = cm.call_method(it, S, 'serialize', K('test.obj'), data)
                got = Rope.of(it, ser)
                ok = got is not None and repr(got) == repr(want)
                run.check(ok, 'D1b', f'TlSchemas.serialize_field[{t}]' if not ok else f'write[{tag}]', f'{tag}: emitted {str(got)[:120]}; TL encoding {str(want)[:120]}', wser)
                if not ok:
                    continue
                res = cm.call_method(it, S, 'deserialize', ser)
                back, used = res.items
                diff = first_diff(norm(it, back), norm(it, {'@type': 'test.obj', 'f': exp, 'tail': tail}))
                ok = diff is None and isinstance(used, K) and used.v == want.n
                run.check(ok, 'D1b', f'TlSchemas.deserialize[{t}]' if not ok else f'read[{tag}]', f'{tag}: ' + (diff or f'consumed {vrepr(used)} of {want.n}'), wdes)
            except RaiseEx as e:
                run.fail('D1b', f'TlSchemas.serialize_field[{t}]', f'{tag}: raises {e}', wser)
            run.evaluations += 1
    # D2 string framing, every length class
    for t in ('bytes', 'string'):
        for L in list(range(0, 13)) + list(range(248, 262)) + [1000, 65535, 65536, (1 << 24) - 1]:
            it = mk(prog)
            S = one_field_schema(prog, it, t)
            x = Sym('P', ty='bytes', n=L, key=('P', L))
            payload = (x if L else K(b''))
            v = payload if t == 'bytes' else (Term('decode', x) if L else K(''))
            head = bytes([L]) if L <= 253 else b'\xfe' + L.to_bytes(3, 'little')
            pad = (-(len(head) + L)) % 4
            obj_id = zlib.crc32(f'test.obj f:{t} tail:int = test.Obj'.encode()).to_bytes(4, 'little')
            want = Rope([(K(obj_id + head), 4 + len(head))] + ([(x, L)] if L else []) + [(K(b'\x00' * pad + (7).to_bytes(4, 'little')), pad + 4)])
            data = DictV({'f': v, 'tail': K(7)})
            data.keyobj = {k: K(k) for k in data.d}
            try:
                ser = cm.call_method(it, S, 'serialize', K('test.obj'), data)
                got = Rope.of(it, ser)
                ok = got is not None and repr(got) == repr(want)
                if ok:
                    res = cm.call_method(it, S, 'deserialize', ser)
                    back, used = res.items
                    diff = first_diff(norm(it, back), norm(it, {'@type': 'test.obj', 'f': v, 'tail': 7}))
                    ok = diff is None and isinstance(used, K) and used.v == want.n
                    why = diff or f'consumed {vrepr(used)} of {want.n}'
                else:
                    why = f'emitted {str(got)[:100]}; TL {str(want)[:100]}'
            except RaiseEx as e:
                ok, why = False, f'raises {e}'
            run.check(ok, 'D2', f'TlSchemas[{t} framing]' if not ok else f'{t}[len={L}]', f'{t} of {L} bytes: {why}', wser)
            run.evaluations += 1


def check_history(run, prog, wdes):
    """one schema set serves many parses (it is expensive to build): what a parse returns is a function of its bytes, whatever the same
    object parsed - or refused - before"""
    lines = [('x', 'test.w data:bytes = test.W;'), ('x', 'test.vi items:(vector int) = test.Vi;'), ('x', 'test.nop = test.Nop;'), ('x', 'test.n v:int = test.N;')]

    def tid(l):
        return zlib.crc32(l.rstrip(';').replace('(', '').replace(')', '').encode()).to_bytes(4, 'little')

    def tl_bytes(b):
        body = bytes([len(b)]) + b
        return body + b'\x00' * (-len(body) % 4)
    valid = [tid(lines[0][1]) + tl_bytes(tid(lines[3][1]) + (7).to_bytes(4, 'little')),
             tid(lines[0][1]) + tl_bytes(tid(lines[0][1]) + tl_bytes(tid(lines[0][1]) + tl_bytes(tid(lines[2][1]))))]
    malformed = [tid(lines[0][1]) + tl_bytes(tid(lines[1][1]) + b'\x03\x00\x00\x00'),                      # nested vector announcing 3 items, none present
                 tid(lines[0][1]) + tl_bytes(tid(lines[0][1]) + tl_bytes(tid(lines[1][1]) + b'\x05\x00\x00\x00' + b'\x01\x00\x00\x00'))]
    run.rule('D5', 'one TlSchemas object, many parses: a parse returns what a fresh object returns for the same bytes, also after parses that were refused', 2)
    try:
        fresh = []
        for raw in valid:
            it0 = mk(prog)
            S0, _ = build_schemas(prog, it0, lines)
            fresh.append(norm(it0, cm.call_method(it0, S0, 'deserialize', K(raw))))
        it = mk(prog)
        S, _ = build_schemas(prog, it, lines)
        refused = 0
        for rep in range(24):
            for raw in malformed:
                it.steps = 0
                try:
                    cm.call_method(it, S, 'deserialize', K(raw))
                except RaiseEx:
                    refused += 1
            if rep in (0, 7, 23):
                for j, raw in enumerate(valid):
                    it.steps = 0
                    got = norm(it, cm.call_method(it, S, 'deserialize', K(raw)))
                    ok = got == fresh[j]
                    run.check(ok, 'D5', 'TlSchemas.deserialize[after earlier parses]' if not ok else f'history: valid input {j} after {2 * (rep + 1)} malformed ones',
                              f'after {2 * (rep + 1)} malformed inputs ({refused} refused) the same object parses valid input {j} to ' +
                              ('what a fresh object returns' if ok else f'{str(got)[:120]}, a fresh object to {str(fresh[j])[:120]}'), wdes)
                    run.evaluations += 1
    except RaiseEx as e:
        run.fail('D5', 'TlSchemas.deserialize[after earlier parses]', f'raises {e}', wdes)
    except Fail as e:
        raise AnalysisError(f'TL history scenario: {e}')


def check_block_ids(run, prog):
    w = prog.where(prog.method('BlockIdExt', 'to_bytes'))
    it = mk(prog)
    BE = prog.cls('BlockIdExt')
    wc, sh, sq = Sym('wc', ty='int', key=('wc',), not_none=True), Sym('shard', ty='int', key=('sh',), not_none=True), Sym('seqno', ty='int', key=('sq',), not_none=True)
    R, F = Sym('R', ty='bytes', n=32, key=('R',)), Sym('F', ty='bytes', n=32, key=('F',))
    b = it.construct(BE, [wc, sh, sq, R, F], {})
    raw = cm.call_method(it, b, 'to_bytes')
    want = Rope([(Term('to_bytes', wc, K(4), K('big'), K(True)), 4), (Term('to_bytes', sh, K(8), K('big'), K(True)), 8), (Term('to_bytes', sq, K(4), K('big'), K(True)), 4), (R, 32), (F, 32)])
    got = Rope.of(it, raw)
    ok = got is not None and repr(got) == repr(want)
    run.check(ok, 'D4', 'BlockIdExt.to_bytes' if not ok else 'to_bytes layout', f'{str(got)[:160]} (expected wc:4 | shard:8 | seqno:4 | root:32 | file:32, big-endian signed)', w)
    b2 = it.call(it.getattr(BE, 'from_bytes'), [raw], {})
    same = all(b2.attrs.get(k) is v for k, v in (('workchain', wc), ('shard', sh), ('seqno', sq), ('root_hash', R), ('file_hash', F)))
    run.check(same, 'D4', 'BlockIdExt.from_bytes' if not same else 'from_bytes(to_bytes(x)) == x', f'fields back: {[vrepr(b2.attrs.get(k))[:20] for k in ("workchain", "shard", "seqno", "root_hash", "file_hash")]}', prog.where(prog.method('BlockIdExt', 'from_bytes')))
    d = cm.call_method(it, b, 'to_dict')
    b3 = it.call(it.getattr(BE, 'from_dict'), [d], {})
    same = all(repr(it.vkey(b3.attrs.get(k))) == repr(it.vkey(v)) for k, v in (('workchain', wc), ('shard', sh), ('seqno', sq), ('root_hash', R), ('file_hash', F)))
    run.check(same, 'D4', 'BlockIdExt.from_dict' if not same else 'from_dict(to_dict(x)) == x', f'fields back: {[vrepr(b3.attrs.get(k))[:20] for k in ("workchain", "shard", "seqno", "root_hash", "file_hash")]}', prog.where(prog.method('BlockIdExt', 'from_dict')))
    eq = it.cmp(ast.Eq(), b, b2, None)
    run.check(isinstance(eq, K) and eq.v is True, 'D4', 'BlockIdExt.__eq__' if not (isinstance(eq, K) and eq.v is True) else 'round-tripped id equals the original', f'equal: {vrepr(eq)}', prog.where(prog.method('BlockIdExt', '__eq__')))
    it2 = Interp(prog)
    c = it2.construct(BE, [K(-1), K(None), K(5), K(bytes(range(32))), K(bytes(range(32, 64)))], {})
    try:
        h = it2.models.builtin(it2, 'hash', [c], {}, None)
        ok = isinstance(h, K) and isinstance(h.v, int) and not isinstance(h.v, bool) or (isinstance(h, Term) and h.op == 'hash')
        why = f'__hash__ returns {type(h.v).__name__ if isinstance(h, K) else vrepr(h)[:40]} (must be an int for the object to be usable as a dictionary key)'
    except RaiseEx as e:
        ok, why = False, f'raises {e}'
    run.check(ok, 'D4', 'BlockIdExt.__hash__', why, prog.where(prog.method('BlockIdExt', '__hash__')))
    # the short block id is usable as a dictionary key / set member as well (ids are what lookups are keyed by)
    if prog.cls('BlockId', required=False) is not None:
        it3 = Interp(prog)
        try:
            bid = it3.construct(prog.cls('BlockId'), [K(-1), K(-(1 << 63)), K(7)], {})
            d_ = DictV()
            it3.setitem(d_, bid, K(1))
            got_ = it3.getitem(d_, bid, None)
            ok = isinstance(got_, K) and got_.v == 1
            why = 'a BlockId is a dictionary key' if ok else f'lookup of a BlockId used as a key gives {vrepr(got_)}'
        except RaiseEx as e:
            ok, why = False, f'a BlockId cannot be used as a dictionary key: raises {e}'
        run.check(ok, 'D4', 'BlockId.__hash__', why, prog.where(prog.cls('BlockId')) if hasattr(prog.cls('BlockId'), 'node') else w)
    # equal ids are one dictionary key, whatever route built them (bytes / hex text, shard None / -2^63, from_bytes, from_dict)
    it4 = Interp(prog)
    rh, fh = bytes(range(32)), bytes(range(32, 64))
    routes = {
        'bytes hashes, shard -2^63': lambda: it4.construct(BE, [K(-1), K(-(1 << 63)), K(5), K(rh), K(fh)], {}),
        'hex hashes, shard None': lambda: it4.construct(BE, [K(-1), K(None), K(5), K(rh.hex()), K(fh.hex())], {}),
        'bytes hashes, shard None': lambda: it4.construct(BE, [K(-1), K(None), K(5), K(rh), K(fh)], {}),
        'from_bytes(to_bytes)': lambda: it4.call(it4.getattr(BE, 'from_bytes'), [cm.call_method(it4, it4.construct(BE, [K(-1), K(None), K(5), K(rh), K(fh)], {}), 'to_bytes')], {}),
        'from_dict(to_dict)': lambda: it4.call(it4.getattr(BE, 'from_dict'), [cm.call_method(it4, it4.construct(BE, [K(-1), K(None), K(5), K(rh.hex()), K(fh)], {}), 'to_dict')], {}),
    }
    objs = {}
    for rn, mkobj in routes.items():
        try:
            objs[rn] = mkobj()
        except RaiseEx as e:
            run.fail('D4', 'BlockIdExt[construction route]', f'{rn}: raises {e}', prog.where(prog.method('BlockIdExt', '__init__')))
    names = list(objs)
    for i, a_ in enumerate(names):
        for b_ in names[i + 1:]:
            try:
                eq = it4.cmp(ast.Eq(), objs[a_], objs[b_], None)
                ha = it4.models.builtin(it4, 'hash', [objs[a_]], {}, None)
                hb = it4.models.builtin(it4, 'hash', [objs[b_]], {}, None)
                same_h = repr(it4.vkey(ha)) == repr(it4.vkey(hb))
                ok = isinstance(eq, K) and eq.v is True and same_h
                why = f'equal: {vrepr(eq)}, hash {"equal" if same_h else "DIFFERENT: " + vrepr(ha)[:50] + " vs " + vrepr(hb)[:50]}'
            except RaiseEx as e:
                ok, why = False, f'raises {e}'
            run.check(ok, 'D4', 'BlockIdExt.__hash__[equal ids, different construction routes]' if not ok else f'hash/eq[{a_} ~ {b_}]', f'the same block id built as `{a_}` and as `{b_}`: {why}',
                      prog.where(prog.method('BlockIdExt', '__hash__')))
            run.evaluations += 1
    BI = prog.cls('BlockId')
    it3 = mk(prog)
    bi = it3.construct(BI, [wc, sh, sq], {})
    bi2 = it3.call(it3.getattr(BI, 'from_dict'), [cm.call_method(it3, bi, 'to_dict')], {})
    same = all(bi2.attrs.get(k) is v for k, v in (('workchain', wc), ('shard', sh), ('seqno', sq)))
    run.check(same, 'D4', 'BlockId.from_dict' if not same else 'BlockId dict round trip', 'workchain, shard, seqno back unchanged' if same else 'fields changed', prog.where(prog.method('BlockId', 'from_dict')))
