"""C07 - cell capacity, value ranges and read bounds are enforced.

Every Builder store primitive is abstractly interpreted at every boundary fill level (thorough: every fill level), every
reference-adding primitive on the complete (refs in builder x refs offered x refs already consumed) domain, every consuming
Slice read at every remaining length around the requested one, on slices obtained through every construction route.
Obligation: accepted  <=>  it fits (no capacity exceeded, nothing that fits refused); an over-read raises.
"""
import ast
from ..core import AnalysisError
from ..front import Program
from ..interp import Interp
from ..values import *
from .. import cellmodel as cm
from .C06 import builder, call, segs_of, to_slice, rem, guard

MANIFEST = dict(
    technique='abstract interpretation of every Builder.store_* / Slice.load_* at all boundary fill levels (thorough: all 0..1023) and of the reference guards on the complete (r, n, consumed) domain; structural who-may-grow rule on the bit container',
    text='Decides that a store succeeds iff bits+k <= 1023 and refs+n <= 4 (both directions: never exceeded, never spuriously refused), that '
         'out-of-range integer values reach the range-checking conversion unmodified, that every consuming read of more bits/refs than '
         'remain raises on slices from every construction route, and that depth 1024 is rejected.'
         " The depth limit holds at every level: an ordinary cell over a pruned branch whose stored depth would make any level's depth 1024 is refused."
         ' Snake-chained byte strings take their continuation reference within the capacity (refused at four references, chain cells within capacity); address stores refuse a workchain outside int8 and an external address wider than its length.'
         ' After a composite read was refused, reading more than the slice still holds raises (on the slice and on a copy of it).',
    note='trusted: interpreter, model of bitarray (int2ba raises OverflowError out of range - library contract). Not decided: arbitrary long operation sequences beyond one operation at every reachable (bits, refs) fill state (the state is exactly (bits, refs), so one step from every state is inductive).',
    design_ref='DESIGN.md section 4 C07')


def filled(it, f, r=0):
    b = builder(it)
    if f:
        call(it, b, 'store_bits', cm.data_bits(f, 'fill'))
    for i in range(r):
        call(it, b, 'store_ref', cm.leaf(it, 0, f'r{i}'))
    return b


def nbits(it, b):
    return sum(s.n for s in segs_of(b))


def nrefs(it, b):
    return len(it.getattr(b, 'refs').items)


def chain_cells(it, c):
    out = []
    while True:
        out.append(c)
        refs = it.getattr(c, 'refs').items
        if not refs or len(out) > 64:
            return out
        c = refs[-1]


def store_prims(it):
    """name -> (k bits added, n refs added, apply(builder))"""
    hp = Sym('hp', ty='bytes', n=32, key=('hp',))
    wc = Sym('wc', ty='int', not_none=True, key=('wc',), lo=-128, hi=127)
    P = {}
    for n in (1, 8, 64, 256, 257):
        P[f'store_uint({n})'] = (n, 0, lambda b, n=n: call(it, b, 'store_uint', Sym('v', ty='int', not_none=True, lo=0, hi=(1 << n) - 1), K(n)))
        P[f'store_int({n})'] = (n, 0, lambda b, n=n: call(it, b, 'store_int', Sym('v', ty='int', not_none=True, lo=-(1 << (n - 1)), hi=(1 << (n - 1)) - 1), K(n)))
    P['store_bit'] = (1, 0, lambda b: call(it, b, 'store_bit', K(1)))
    P['store_bit(str)'] = (1, 0, lambda b: call(it, b, 'store_bit', K('1')))
    P['store_bool'] = (1, 0, lambda b: call(it, b, 'store_bool', K(True)))
    P['store_bit_int'] = (1, 0, lambda b: call(it, b, 'store_bit_int', K(0)))
    for n in (1, 100, 1023):
        P[f'store_bits({n})'] = (n, 0, lambda b, n=n: call(it, b, 'store_bits', cm.data_bits(n, 'x')))
    P["store_bits('0101')"] = (4, 0, lambda b: call(it, b, 'store_bits', K('0101')))
    for n in (1, 32, 127):
        P[f'store_bytes({n})'] = (8 * n, 0, lambda b, n=n: call(it, b, 'store_bytes', Sym('raw', ty='bytes', n=n)))
    P['store_string(5)'] = (40, 0, lambda b: call(it, b, 'store_string', K('hello')))
    P['store_var_uint(2 bytes)'] = (4 + 16, 0, lambda b: call(it, b, 'store_var_uint', K(0x1234), K(4)))
    P['store_var_int(2 bytes)'] = (5 + 16, 0, lambda b: call(it, b, 'store_var_int', K(-0x1234), K(5)))
    P['store_coins(0)'] = (4, 0, lambda b: call(it, b, 'store_coins', K(0)))
    P['store_coins(10^9)'] = (4 + 32, 0, lambda b: call(it, b, 'store_coins', K(10 ** 9)))
    P['store_address(None)'] = (2, 0, lambda b: call(it, b, 'store_address', K(None)))

    def std(b):
        a = it.construct(it.prog.cls('Address'), [ListV([wc, hp], tup=True)], {})
        return call(it, b, 'store_address', a)
    P['store_address(std)'] = (267, 0, std)

    def ext(b):
        a = it.construct(it.prog.cls('ExternalAddress'), [Sym('e', ty='int', not_none=True, lo=0, hi=(1 << 20) - 1), K(20)], {})
        return call(it, b, 'store_address', a)
    P['store_address(ext20)'] = (31, 0, ext)
    P['store_maybe_ref(None)'] = (1, 0, lambda b: call(it, b, 'store_maybe_ref', K(None)))
    P['store_maybe_ref(cell)'] = (1, 1, lambda b: call(it, b, 'store_maybe_ref', cm.leaf(it, 3, 'm')))
    P['store_dict(None)'] = (1, 0, lambda b: call(it, b, 'store_dict', K(None)))
    P['store_dict(cell)'] = (1, 1, lambda b: call(it, b, 'store_dict', cm.leaf(it, 3, 'm')))
    P['store_ref'] = (0, 1, lambda b: call(it, b, 'store_ref', cm.leaf(it, 3, 'm')))
    P['store_cell(50 bits)'] = (50, 0, lambda b: call(it, b, 'store_cell', cm.leaf(it, 50, 'c')))
    P['store_slice(50 bits)'] = (50, 0, lambda b: call(it, b, 'store_slice', call(it, cm.leaf(it, 50, 'c'), 'begin_parse')))
    return P


def check(run):
    prog = Program()
    wb = prog.where(prog.method('Builder', 'store_ref'))
    wt = prog.where(prog.method('TvmBitarray', 'check_overflow', required=False) or prog.method('TvmBitarray', '__init__'))
    thorough = run.tier == 'thorough'
    run.explanation = ('Each store/load primitive interpreted at every boundary (thorough: every) fill level; accepted iff it fits. '
                       'The builder state relevant to capacity is exactly (bits, refs), so one operation from every state is an inductive argument for all sequences.')
    run.rule('D1', 'bit capacity: store of k bits at fill f succeeds iff f+k <= 1023, and then the builder holds f+k bits', 300)
    run.rule('D1s', 'every operation that grows a builder\'s bit container is a capacity-checked override (no raw +=, insert, item assignment)', 1)
    run.rule('D2', 'reference capacity: adding n references to a builder holding r succeeds iff r+n <= 4 (consumed references of a slice do not count)', 60)
    run.rule('D3', 'integer stores reject values outside the stated width (both signs, all widths 1..257) and accept the extremes', 518)
    run.rule('D4', 'a consuming read of more bits / references than remain raises, on slices from every construction route; a read that fits succeeds', 150)
    run.rule('D5', 'depth above 1023 is rejected at end_cell', 2)
    run.trust('CPython ast', 'checker interpreter', 'model of bitarray/int2ba (range-checked)')
    run.exhaustive = True

    # ---- D1 bit capacity
    it0 = Interp(prog)
    names = list(store_prims(it0))
    for name in names:
        it = Interp(prog)
        k, n, _ = store_prims(it)[name]
        if thorough and name in ('store_uint(1)', 'store_uint(257)', 'store_bytes(32)', 'store_bits(100)', 'store_address(std)', 'store_cell(50 bits)', 'store_slice(50 bits)', 'store_var_uint(2 bytes)'):
            fills = range(0, 1024)
        else:
            fills = sorted({0, 1, max(0, 1023 - k - 1), max(0, 1023 - k), min(1023, 1023 - k + 1), min(1023, 1023 - k + 2), 1015, 1016, 1022, 1023})
        bad = 0
        for f in fills:
            it = Interp(prog)
            fn = store_prims(it)[name][2]
            b = filled(it, f)
            fits = f + k <= 1023
            n_und = len(it.pathcond)
            try:
                fn(b)
                ok = True
            except RaiseEx as e:
                ok = False
                exc = e
            if len(it.pathcond) > n_und:
                # fill and size are constants: an outcome that rests on a condition the interpretation could not decide (a length it does
                # not know, say) is no outcome - neither an acceptance nor a refusal is reported from it
                raise AnalysisError(f'{name} at fill {f}: the outcome depends on undecided condition(s) {[d for d, _ in it.pathcond[n_und:]][:3]}')
            run.evaluations += 1
            after = nbits(it, b)
            cons = f'Builder.{name.split("(")[0]}'
            if ok and not fits:
                bad += 1
                run.fail('D1', cons, f'{name} at fill {f}: accepted, builder now holds {after} bits (> 1023)', wt, witness=dict(op=name, fill=f))
            elif not ok and fits:
                bad += 1
                run.fail('D1', cons, f'{name} at fill {f}: refused ({exc}) although {f}+{k} <= 1023', wt, witness=dict(op=name, fill=f))
            elif ok and after != f + k:
                bad += 1
                run.fail('D1', cons, f'{name} at fill {f}: builder holds {after} bits, expected {f + k}', wt)
            else:
                run.ok('D1', f'{name}@{f}', f'{"accepted" if ok else "refused"} ({f}+{k} vs 1023)' if f in (0, 1023) else '')
            if bad >= 2:
                break
        # end_cell of any accepted state has <= 1023 bits
    # structural: who may grow the container
    tvm = prog.cls('TvmBitarray')
    checked = set()
    for mname, fn in tvm.methods.items():
        calls = [c for c in ast.walk(fn) if isinstance(c, ast.Call) and isinstance(c.func, ast.Attribute)]
        has_check = any(c.func.attr == 'check_overflow' for c in calls)
        has_super = any(c.func.attr == mname and isinstance(c.func.value, ast.Call) and isinstance(c.func.value.func, ast.Name) and c.func.value.func.id == 'super' for c in calls)
        if has_check and has_super:
            checked.add(mname)
    # ... or by what the method does (a guard installed by a decorator, a helper, a differently written comparison): on a builder
    # filled to the limit the method must refuse one more bit, on an empty one it must accept it
    probe_args = {'append': lambda: [K(1)], 'extend': lambda: [K('1')], 'frombytes': lambda: [K(b'\x00')]}
    for mname, mk in probe_args.items():
        if mname in checked or mname not in tvm.methods:
            continue
        try:
            it = Interp(prog)
            full = it.getattr(filled(it, 1023), 'bits')
            try:
                it.call(it.getattr(full, mname), mk(), {})
                refused = False
            except RaiseEx as e:
                refused = 'verflow' in str(e)
            it = Interp(prog)
            empty = it.getattr(filled(it, 0), 'bits')
            it.call(it.getattr(empty, mname), mk(), {})
            if refused:
                checked.add(mname)
        except (RaiseEx, Fail):
            pass
    growers = {'append', 'extend', 'frombytes', 'insert', 'encode', 'pack', 'fromfile', 'setall', '__iadd__', '__imul__', '__setitem__'}
    sites, offenders = 0, []
    bcls = prog.cls('Builder')
    for f in prog.all_functions():
        for n in ast.walk(f.node):
            tgt = None
            if isinstance(n, ast.Call) and isinstance(n.func, ast.Attribute) and n.func.attr in growers:
                recv = n.func.value
                if isinstance(recv, ast.Attribute) and recv.attr in ('_bits', 'bits') and isinstance(recv.value, ast.Name) and \
                        ((recv.value.id == 'self' and f.cls is not None and prog.is_subclass(f.cls, 'Builder')) or recv.value.id in ('builder', 'to', 'dest', 'b')):
                    sites += 1
                    if n.func.attr not in checked:
                        offenders.append((f, n, f'.{n.func.attr}() is not a capacity-checked override'))
            if isinstance(n, ast.AugAssign) and isinstance(n.target, ast.Attribute) and n.target.attr in ('_bits', 'bits') and \
                    isinstance(n.target.value, ast.Name) and n.target.value.id == 'self' and f.cls is not None and prog.is_subclass(f.cls, 'Builder'):
                sites += 1
                offenders.append((f, n, 'in-place operator on the bit container bypasses the capacity check'))
    for f, n, why in offenders[:3]:
        run.fail('D1s', f.qual, f'`{ast.unparse(n)[:60]}`: {why}', prog.where(n, f.module))
    if not offenders:
        run.ok('D1s', 'bit-container growth sites', f'{sites} growth sites on Builder bits, all through checked overrides {sorted(checked)}')
        if sites < 5:
            raise AnalysisError(f'only {sites} growth sites found on Builder bits (expected >= 5): anchor lost')

    # ---- D2 reference capacity: complete domain
    for r in range(0, 5):
        for t in range(0, 5):
            for o in range(0, t + 1):
                n = t - o
                for op in ('store_slice', 'store_cell', 'store_ref', 'store_maybe_ref', 'store_dict'):
                    if op == 'store_cell' and o:
                        continue
                    if op in ('store_ref', 'store_maybe_ref', 'store_dict') and (t != 1 or o):
                        continue
                    it = Interp(prog)
                    b = filled(it, 7, r)
                    kids = [cm.leaf(it, 1, f'k{i}') for i in range(t)]
                    src = cm.new_cell(it, cm.tvm_bits(it, cm.data_bits(9, 'src')), kids)
                    try:
                        if op == 'store_cell':
                            call(it, b, 'store_cell', src)
                        elif op == 'store_slice':
                            s = call(it, src, 'begin_parse')
                            for _ in range(o):
                                call(it, s, 'load_ref')
                            call(it, b, 'store_slice', s)
                        else:
                            call(it, b, op, kids[0])
                        ok = True
                    except RaiseEx as e:
                        ok, exc = False, e
                    run.evaluations += 1
                    fits = r + n <= 4
                    after = nrefs(it, b)
                    cons = f'Builder.{op}'
                    st = f'{op}[r={r},offered={t},consumed={o}]'
                    if ok and not fits:
                        run.fail('D2', cons, f'{st}: accepted, builder now holds {after} references', wb, witness=dict(r=r, t=t, o=o))
                    elif not ok and fits:
                        run.fail('D2', cons, f'{st}: refused ({exc}) although {r}+{n} <= 4', wb, witness=dict(r=r, t=t, o=o))
                    elif not ok and (after > 4 or nbits(it, b) > 1023):
                        # a refused store must not leave the builder over capacity: the caller who catches the error could end such a cell
                        run.fail('D2', f'{cons}[refusal leaves the builder over capacity]', f'{st}: the store raised but the builder now holds {after} reference(s) / {nbits(it, b)} bits (had {r} / 7): end_cell would yield a cell over capacity',
                                 wb, witness=dict(r=r, t=t, o=o))
                    elif not ok and (after != r or nbits(it, b) != 7):
                        run.ok('D2', st)
                        if op not in getattr(run, '_partial', set()):
                            run.__dict__.setdefault('_partial', set()).add(op)
                            run.info(f'{op}: a refused store leaves a partial write behind ({after} refs / {nbits(it, b)} bits instead of {r} / 7) - within capacity, not a violation of the property')
                    elif ok and after != r + n:
                        run.fail('D2', cons, f'{st}: builder holds {after} references, expected {r + n}', wb)
                    elif ok and op in ('store_slice', 'store_cell') and [x for x in it.getattr(b, 'refs').items[r:]] != kids[o:]:
                        run.fail('D2', cons, f'{st}: stored references are not the remaining ones, in order', wb)
                    else:
                        run.ok('D2', st)

    # ---- D2 (continued): the absent forms of Maybe ^Cell / HashmapE take one bit and no reference
    for r in range(0, 5):
        for op in ('store_maybe_ref', 'store_dict'):
            for fill in (7, 1022, 1023):
                it = Interp(prog)
                b = filled(it, fill, r)
                try:
                    call(it, b, op, K(None))
                    ok = True
                except RaiseEx as e:
                    ok, exc = False, e
                run.evaluations += 1
                fits = fill + 1 <= 1023
                st = f'{op}(None)[r={r},fill={fill}]'
                if not ok and fits:
                    run.fail('D2', f'Builder.{op}', f'{st}: refused ({exc}) although one bit and no reference is needed and {1023 - fill} bit(s) are free', wb, witness=dict(r=r, fill=fill))
                elif ok and not fits:
                    run.fail('D2', f'Builder.{op}', f'{st}: accepted, builder now holds {nbits(it, b)} bits', wb, witness=dict(r=r, fill=fill))
                elif ok and (nrefs(it, b) != r or nbits(it, b) != fill + 1):
                    run.fail('D2', f'Builder.{op}', f'{st}: builder holds {nrefs(it, b)} refs / {nbits(it, b)} bits, expected {r} / {fill + 1}', wb)
                else:
                    run.ok('D2', st)
    # snake-chained byte strings: a value longer than the room left needs one reference for its continuation (and the continuation cells are
    # within capacity themselves): accepted iff r < 4; a value that fits inline needs none
    for r in range(0, 5):
        for fill, nbytes in ((0, 127), (0, 128), (0, 400), (1000, 2), (1000, 3), (1016, 1), (1023, 1)):
            for op, arg in (('store_snake_bytes', lambda n_: Sym('snake', ty='bytes', n=n_, key=('snake', n_))), ('store_snake_string', lambda n_: K('s' * n_))):
                it = Interp(prog)
                b = filled(it, fill, r)
                room = (1023 - fill) // 8
                needs_ref = nbytes > room
                try:
                    call(it, b, op, arg(nbytes))
                    ok = True
                except RaiseEx as e:
                    ok, exc = False, e
                except Fail as e:
                    raise AnalysisError(f'{op}({nbytes} bytes) at r={r}, fill={fill}: {e}')
                run.evaluations += 1
                fits = not needs_ref or r < 4
                st = f'{op}({nbytes} bytes)[r={r},fill={fill}]'
                if ok and not fits:
                    run.fail('D2', f'Builder.{op}', f'{st}: accepted, builder now holds {nrefs(it, b)} references (a continuation cell was attached to a builder that had 4)', wb, witness=dict(r=r, fill=fill))
                elif not ok and fits:
                    run.fail('D2', f'Builder.{op}', f'{st}: refused ({exc}) although {"the value fits inline" if not needs_ref else f"{r}+1 <= 4 references"}', wb, witness=dict(r=r, fill=fill))
                elif ok and (nrefs(it, b) != r + (1 if needs_ref else 0) or nbits(it, b) > 1023):
                    run.fail('D2', f'Builder.{op}', f'{st}: builder holds {nrefs(it, b)} refs / {nbits(it, b)} bits, expected {r + (1 if needs_ref else 0)} refs and at most 1023 bits', wb)
                elif ok and needs_ref and any(len(it.getattr(c_, 'refs').items) > 4 or len(it.getattr(c_, 'bits').native if isinstance(it.getattr(c_, 'bits'), Inst) else it.getattr(c_, 'bits')) > 1023
                                              for c_ in chain_cells(it, it.getattr(b, 'refs').items[-1])):
                    run.fail('D2', f'Builder.{op}', f'{st}: a continuation cell of the chain is over capacity', wb)
                else:
                    run.ok('D2', st)
    # a present Maybe ^Cell needs one bit as well as one reference
    for r in range(0, 4):
        it = Interp(prog)
        b = filled(it, 1023, r)
        try:
            call(it, b, 'store_maybe_ref', cm.leaf(it, 1, 'k'))
            ok = True
        except RaiseEx:
            ok = False
        run.evaluations += 1
        run.check(not ok or nbits(it, b) <= 1023, 'D2', 'Builder.store_maybe_ref' if ok and nbits(it, b) > 1023 else f'store_maybe_ref(present)[r={r},fill=1023]',
                  'refused: no bit left for the presence flag' if not ok else f'accepted with {nbits(it, b)} bits', wb)

    # ---- D3 value ranges
    ws = prog.where(prog.method('Builder', 'store_uint'))
    for n in range(1, 258):
        for kind, lo, hi in (('uint', 0, (1 << n) - 1), ('int', -(1 << (n - 1)), (1 << (n - 1)) - 1)):
            res = []
            for v, fits in ((lo, True), (hi, True), (lo - 1, False), (hi + 1, False)):
                it = Interp(prog)
                b = builder(it)
                try:
                    call(it, b, f'store_{kind}', K(v), K(n))
                    got = nbits(it, b) == n
                except RaiseEx:
                    got = False
                res.append(got == fits)
                run.evaluations += 1
            good = all(res)
            run.check(good, 'D3', f'Builder.store_{kind}' if not good else f'range:{kind}{n}',
                      f'width {n}: extremes accepted / neighbours rejected = {res}', ws)
    # width 0 / negative width
    for kind in ('uint', 'int'):
        for n in (0, -1):
            it = Interp(prog)
            b = builder(it)
            try:
                call(it, b, f'store_{kind}', K(1), K(n))
                got = True
            except RaiseEx:
                got = False
            run.check(not got, 'D3', f'Builder.store_{kind}' if got else f'range:{kind}:width{n}', f'store_{kind}(1, {n}) accepted={got}', ws)

    # variable-length integers and coins: the value range is [0, 256^(2^l - 1)) for VarUInteger, two's complement of that many bytes for VarInteger
    for meth, lbits, cases in (('store_coins', None, [(0, True), (1, True), ((1 << 120) - 1, True), (1 << 120, False), (-1, False), (-(10 ** 18), False)]),
                               ('store_var_uint', 4, [(0, True), ((1 << 120) - 1, True), (1 << 120, False), (-1, False), (-300, False)]),
                               ('store_var_uint', 5, [((1 << 248) - 1, True), (1 << 248, False), (-1, False)]),
                               ('store_var_int', 4, [(0, True), (-1, True), ((1 << 119) - 1, True), (-(1 << 119), True), (1 << 119, False), (-(1 << 119) - 1, False)])):
        for v, fits in cases:
            it = Interp(prog)
            b = builder(it)
            try:
                if lbits is None:
                    call(it, b, meth, K(v))
                else:
                    call(it, b, meth, K(v), K(lbits))
                got = True
            except RaiseEx:
                got = False
            run.evaluations += 1
            run.check(got == fits, 'D3', f'Builder.{meth}' if got != fits else f'range:{meth}{lbits or ""}:{v if abs(v) < 1000 else ("-" if v < 0 else "") + "2^" + str(abs(v).bit_length())}',
                      f'{meth}({v if abs(v) < 1 << 40 else hex(v)}{"" if lbits is None else ", " + str(lbits)}): {"accepted" if got else "rejected"}, must be {"accepted" if fits else "rejected (the value does not fit the field)"}', ws)

    # addresses: the workchain is an int8, an external address is `len` bits wide - a value outside the field must be refused, not wrapped
    A_, EA_ = prog.cls('Address'), prog.cls('ExternalAddress')
    for what, mkaddr, fits in [(f'store_address(Address(workchain {wc_}))', (lambda it_, wc_=wc_: it_.construct(A_, [ListV([K(wc_), K(bytes(32))], tup=True)], {})), -128 <= wc_ <= 127)
                               for wc_ in (-128, 127, 0, -1, 128, -129, 255, 300, -300)] + \
                              [(f'store_address(ExternalAddress({v_}, {n_}))', (lambda it_, v_=v_, n_=n_: it_.construct(EA_, [K(v_), K(n_)], {})), 0 <= v_ < (1 << n_))
                               for v_, n_ in ((255, 8), (256, 8), (1, 1), (2, 1), ((1 << 20) - 1, 20), (1 << 20, 20), (-1, 8))]:
        it = Interp(prog)
        b = builder(it)
        try:
            call(it, b, 'store_address', mkaddr(it))
            got = True
        except RaiseEx:
            got = False
        run.evaluations += 1
        run.check(got == fits, 'D3', 'Builder.store_address' if got != fits else f'range:{what}',
                  f'{what}: {"accepted" if got else "rejected"}, must be {"accepted" if fits else "rejected (the value does not fit the field)"}', ws)

    # ---- D4 read bounds on every route
    wl = prog.where(prog.method('Slice', 'load_uint'))

    def routes(it, R, nref):
        kids = [cm.leaf(it, 1, f'k{i}') for i in range(nref)]
        src = cm.new_cell(it, cm.tvm_bits(it, cm.data_bits(R, 'src')), kids)
        yield 'Cell.begin_parse', call(it, src, 'begin_parse')
        yield 'Cell.to_slice', call(it, src, 'to_slice')
        yield 'Slice.from_cell', it.call(it.getattr(prog.cls('Slice'), 'from_cell'), [src], {})
        yield 'Slice.copy', call(it, call(it, src, 'begin_parse'), 'copy')
        b = builder(it)
        call(it, b, 'store_cell', src)
        yield 'Builder.to_slice', call(it, b, 'to_slice')
        yield 'Builder.end_cell().begin_parse', call(it, call(it, b, 'end_cell'), 'begin_parse')
        yield 'Cell(plain bitarray).begin_parse', call(it, cm.new_cell(it, cm.data_bits(R, 'src'), kids), 'begin_parse')
        yield 'Cell.copy().begin_parse', call(it, call(it, src, 'copy'), 'begin_parse')
        yield 'Slice.to_cell().begin_parse', call(it, call(it, call(it, src, 'begin_parse'), 'to_cell'), 'begin_parse')

    reads = [('load_bit', 1, ()), ('load_bool', 1, ()), ('load_uint', None, None), ('load_int', None, None), ('load_bits', None, None),
             ('skip_bits', None, None), ('load_bytes', None, 'bytes')]
    for R in (0, 1, 7, 8, 9, 64):
        for meth, fixed, mode in reads:
            ks = [fixed] if fixed else sorted({max(1, R - 1), R, R + 1, R + 8, 2 * R + 3} - {0})
            for k in ks:
                if mode == 'bytes':
                    if k % 8:
                        continue
                    args = [K(k // 8)]
                elif fixed:
                    args = []
                else:
                    args = [K(k)]
                it = Interp(prog)
                for route, s in routes(it, R, 0):
                    if route != 'Cell.begin_parse' and not (k == R + 1 or (fixed and R == 0)):
                        continue
                    try:
                        out = call(it, s, meth, *args)
                        ok = True
                    except RaiseEx:
                        ok = False
                    run.evaluations += 1
                    fits = k <= R
                    cons = f'Slice.{meth}[{route}]'
                    if ok and not fits:
                        run.fail('D4', cons, f'{meth}({k}) with {R} bits remaining returned {vrepr(out)[:50]} instead of raising', wl, witness=dict(route=route, remaining=R, read=k))
                    elif not ok and fits:
                        run.fail('D4', cons, f'{meth}({k}) with {R} bits remaining raised although it fits', wl)
                    elif ok and rem(it, s) != R - k:
                        run.fail('D4', cons, f'{meth}({k}): {rem(it, s)} bits remain, expected {R - k}', wl)
                    else:
                        run.ok('D4', f'{meth}({k})@{R}[{route}]')
    # composite reads
    for meth, make, need in (('load_coins', lambda b: call(it, b, 'store_coins', K(10 ** 9)), 36), ('load_var_uint', lambda b: call(it, b, 'store_var_uint', K(0x123456), K(5)), 29),
                             ('load_var_int', lambda b: call(it, b, 'store_var_int', K(-5), K(4)), 12), ('load_address', None, 267)):
        for cut in (0, 1, 9):
            it = Interp(prog)
            b = builder(it)
            if meth == 'load_address':
                a = it.construct(prog.cls('Address'), [ListV([Sym('wc', ty='int', not_none=True, lo=-128, hi=-1), Sym('hp', ty='bytes', n=32)], tup=True)], {})
                call(it, b, 'store_address', a)
            else:
                make(b)
            s = to_slice(it, b)
            full = rem(it, s)
            if cut:
                # truncate: keep only the first full-cut bits
                keep = call(it, s, 'load_bits', K(full - cut))
                b2 = builder(it)
                call(it, b2, 'store_bits', keep)
                s = to_slice(it, b2)
            try:
                args = [K(5)] if meth == 'load_var_uint' else [K(4)] if meth == 'load_var_int' else []
                out = call(it, s, meth, *args)
                ok = True
            except RaiseEx:
                ok = False
            good = ok == (cut == 0)
            run.check(good, 'D4', f'Slice.{meth}' if not good else f'{meth}[cut={cut}]',
                      f'{meth} on data truncated by {cut} bits: {"returned " + vrepr(out)[:40] if ok else "raised"}', wl)
            if cut and not ok:
                # the slice after a refused composite read is a slice like any other: reading more than what it still holds raises
                left = rem(it, s)
                for m2, a2 in (('load_uint', [K(left + 1)]), ('load_int', [K(left + 1)]), ('load_bits', [K(left + 1)]), ('skip_bits', [K(left + 1)]),
                               ('load_bytes', [K(left // 8 + 1)]), ('load_uint', [K(64 + left)])):
                    s3 = call(it, s, 'copy')
                    for victim, label in ((s3, 'a copy of the slice'), (s, 'the slice')):
                        before = rem(it, victim)
                        try:
                            o2 = call(it, victim, m2, *a2)
                            over = True
                        except RaiseEx:
                            over = False
                        run.check(not over, 'D4', f'Slice.{m2}[after a refused {meth}]' if over else f'{m2}{[x.v for x in a2]} after a refused {meth}[cut={cut}] on {label}',
                                  f'after {meth} was refused ({before} bits left), {m2}({a2[0].v}) on {label} ' + (f'returned {vrepr(o2)[:40]} instead of raising' if over else 'raised'), wl)
                        run.evaluations += 1
                        if over:
                            break
    # references
    for nref in range(0, 5):
        it = Interp(prog)
        for route, s in routes(it, 3, nref):
            if route not in ('Cell.begin_parse', 'Slice.copy', 'Builder.to_slice'):
                continue
            for meth in ('load_ref',):
                got = 0
                try:
                    for _ in range(nref + 1):
                        call(it, s, meth)
                        got += 1
                    ok = True
                except RaiseEx:
                    ok = False
                good = (not ok) and got == nref
                run.check(good, 'D4', f'Slice.{meth}[{route}]' if not good else f'{meth}[{route},refs={nref}]',
                          f'{nref} references: {got} loads succeeded, the next one {"returned" if ok else "raised"}', wl)
    it = Interp(prog)
    b = builder(it)
    call(it, b, 'store_bit', K(1))
    s = to_slice(it, b)
    try:
        out = call(it, s, 'load_maybe_ref')
        ok = True
    except RaiseEx:
        ok = False
    run.check(not ok, 'D4', 'Slice.load_maybe_ref' if ok else 'load_maybe_ref[no ref]', 'presence bit 1 without a reference ' + ('returned ' + vrepr(out)[:30] if ok else 'raised'), wl)

    # ---- D5 depth
    it = Interp(prog)
    kid = cm.forge_ordinary_child(it, 0, depth=1023)
    b = builder(it)
    call(it, b, 'store_ref', kid)
    try:
        call(it, b, 'end_cell')
        ok = True
    except RaiseEx:
        ok = False
    run.check(not ok, 'D5', 'Builder.end_cell' if ok else 'depth1024-rejected', 'child of depth 1023 -> parent depth 1024 ' + ('accepted' if ok else 'rejected'), wb)
    it = Interp(prog)
    kid = cm.forge_ordinary_child(it, 0, depth=1022)
    b = builder(it)
    call(it, b, 'store_ref', kid)
    try:
        call(it, b, 'end_cell')
        ok = True
    except RaiseEx:
        ok = False
    run.check(ok, 'D5', 'Builder.end_cell' if not ok else 'depth1023-accepted', 'child of depth 1022 -> parent depth 1023 ' + ('accepted' if ok else 'rejected'), wb)
    # the limit holds at every level: a pruned branch stands for a sub-tree whose depth it stores - a parent whose depth at some level would be 1024 is refused
    def pruned_child(it_, mask, depths):
        pc = bin(mask).count('1')
        bits = format(1, '08b') + format(mask, '08b') + ''.join(format((7 * j + 1) % 256, '08b') * 32 for j in range(pc)) + ''.join(format(d, '016b') for d in depths)
        return cm.new_cell(it_, cm.tvm_bits(it_, BA([Seg(len(bits), 'k', bits)])), [], 1)
    for mask, depths, want in ((1, [1023], False), (1, [1022], True), (3, [4, 1023], False), (3, [1023, 4], False), (3, [1022, 1022], True), (5, [1023, 7], False),
                               (6, [3, 1023], False), (7, [1, 2, 1022], True)):
        it = Interp(prog)
        try:
            kid = pruned_child(it, mask, depths)
            b = builder(it)
            call(it, b, 'store_uint', K(1), K(1))
            call(it, b, 'store_ref', kid)
            call(it, b, 'end_cell')
            ok = True
        except RaiseEx as e:
            ok = False
        good = ok == want
        run.check(good, 'D5', 'Builder.end_cell[depth behind a pruned branch]' if not good else f'pruned-depth[mask={mask},stored={depths}]',
                  f'ordinary cell over a pruned branch (mask {mask:03b}) storing depths {depths}: ' + ('accepted' if ok else 'rejected') + f' (its depth at some level would be {max(depths) + 1}: must be ' + ('accepted' if want else 'rejected') + ')', wb)
