"""C17 - TVM stack values round-trip and serialising does not consume them.

D1r reader conformance: the nine vm_* classes against the vm_* constructors of block.tlb by the C16 typestate machinery, with
    natural-number type parameters (stack depth, tuple length) enumerated as 0 / n+1 / n+2 patterns and the *argument the code
    passes down* compared with the schema's type argument.
D1w writer conformance: VmStack.serialize is interpreted on stacks covering every value kind (null, integers at every boundary
    of the 64-bit and 257-bit forms, cells, slices, builders, tuples of length 0..4 incl. nesting, every continuation kind) and
    the emitted cell is decoded by the schema-directed decoder (sa/tlbdecode.py): it must be consumed exactly as a VmStack.
D2  integer form: tinyint (64-bit) exactly when the decoder can read the value back from int64, 257-bit form otherwise; no
    boundary value raises.
D3  no consumption of caller values: after serialising, the caller's list / tuples are unchanged and a second serialisation
    yields the same cell.
D4  round trip: VmStack.deserialize(serialize(stack)) returns equal values in the same order, nothing left unread.
"""
import ast
import sys
from ..core import AnalysisError
from ..front import Program, FuncRef
from ..interp import Interp
from ..values import *
from ..tlbslice import *
from ..tlbdecode import decode, flat
from .. import cellmodel as cm
from .. import bocrun
from . import C16

MANIFEST = dict(
    technique='schema-directed typestate analysis of the vm_* deserialisers (natural-number type parameters as patterns, passed arguments checked); abstract interpretation of VmStack.serialize on all value kinds with the emitted cell decoded by a schema-directed decoder; identity/effect check on caller-held containers',
    text='Decides that every vm_* parser issues exactly the reads block.tlb prescribes for each constructor and length pattern, that the serialiser\'s output for every value kind, every integer boundary of the '
         '64/257-bit forms, tuples of length 0..4 (nested) and every continuation kind is a VmStack per the schema (decoded exactly), that parsing it back returns equal values in order, and that serialising '
         'leaves the caller\'s list and tuples untouched (second serialisation identical).'
         ' Loop continuations constructed with their keywords in another order than the scheme serialise in scheme order.'
         ' Slices that hold references only round-trip; a refused serialisation leaves nothing behind for the stacks serialised afterwards.',
    note='trusted: interpreter, TL-B lowering and decoder, bitarray model. Not decided: stacks deeper / tuples longer than the enumerated patterns (the code is uniform in n; the n, n+1, n+2 patterns cover every branch).',
    design_ref='DESIGN.md section 4 C17')

INT_BOUNDARY = [0, 1, -1, 2, 255, -256, (1 << 62), (1 << 63) - 1, 1 << 63, -(1 << 63), -(1 << 63) - 1, (1 << 64), (1 << 255), (1 << 256) - 1, -(1 << 256), -(1 << 200)]


def mk_values(it, prog):
    """name -> (python-level abstract value, comparable key of what must come back)"""
    vals = {}
    vals['null'] = K(None)
    for v in INT_BOUNDARY:
        vals[f'int {v if abs(v) < 1000 else ("-" if v < 0 else "") + "2^" + str(abs(v).bit_length() - (0 if abs(v) & (abs(v) - 1) else 1)) + ("" if not abs(v) & (abs(v) - 1) else "~")}'] = K(v)
    c = cm.new_cell(it, cm.tvm_bits(it, BA([Seg(13, 'k', '1011001110001')])), [cm.leaf(it, 0, 'r')])
    vals['cell'] = c
    def kleaf(bits):
        # distinguishable children: a slice window that starts at the wrong reference must show
        return cm.new_cell(it, cm.tvm_bits(it, BA([Seg(len(bits), 'k', bits)])), [])
    sl = cm.call_method(it, cm.new_cell(it, cm.tvm_bits(it, BA([Seg(9, 'k', '110011001')])), [kleaf('1'), kleaf('10')]), 'begin_parse')
    vals['slice'] = sl
    sl2 = cm.call_method(it, cm.new_cell(it, cm.tvm_bits(it, BA([Seg(12, 'k', '101100111000')])), [kleaf('111'), kleaf('1101'), kleaf('10001')]), 'begin_parse')
    cm.call_method(it, sl2, 'load_uint', K(5))
    cm.call_method(it, sl2, 'load_ref')
    vals['slice (partly consumed)'] = sl2
    # a slice that holds references only (no data bits), untouched and with its first reference consumed
    vals['slice (no bits, two references)'] = cm.call_method(it, cm.new_cell(it, cm.tvm_bits(it, BA([])), [kleaf('1001'), kleaf('0110')]), 'begin_parse')
    sl3 = cm.call_method(it, cm.new_cell(it, cm.tvm_bits(it, BA([Seg(3, 'k', '101')])), [kleaf('11'), kleaf('00'), kleaf('10')]), 'begin_parse')
    cm.call_method(it, sl3, 'load_uint', K(3))
    cm.call_method(it, sl3, 'load_ref')
    vals['slice (bits consumed, two references left)'] = sl3
    b = it.construct(prog.cls('Builder'), [], {})
    cm.call_method(it, b, 'store_uint', K(0xABC), K(12))
    vals['builder'] = b
    VT, VC = prog.cls('VmTuple'), prog.cls('VmCont')

    def tup(items):
        return it.construct(VT, [ListV(list(items))], {})
    vals['tuple()'] = tup([])
    vals['tuple(1)'] = tup([K(7)])
    vals['tuple(2)'] = tup([K(7), K(None)])
    vals['tuple(3)'] = tup([K(1), K(-2), K(1 << 70)])
    vals['tuple(4)'] = tup([K(1), K(2), K(3), K(4)])
    vals['tuple nested'] = tup([tup([K(5), tup([])]), K(9), tup([K(1), K(2), K(3)])])

    def cont(kind, **kw):
        return it.construct(VC, [K(kind)], kw)
    q = cont('vmc_quit', exit_code=K(11))
    vals['cont quit'] = q
    vals['cont quit_exc'] = cont('vmc_quit_exc')
    vals['cont repeat'] = cont('vmc_repeat', count=K((1 << 63) - 1), body=cont('vmc_quit_exc'), after=cont('vmc_quit', exit_code=K(-1)))
    vals['cont until'] = cont('vmc_until', body=cont('vmc_quit', exit_code=K(1)), after=cont('vmc_quit_exc'))
    vals['cont again'] = cont('vmc_again', body=cont('vmc_quit', exit_code=K(2)))
    vals['cont while_cond'] = cont('vmc_while_cond', cond=cont('vmc_quit_exc'), body=cont('vmc_quit', exit_code=K(3)), after=cont('vmc_quit_exc'))
    vals['cont while_body'] = cont('vmc_while_body', cond=cont('vmc_quit_exc'), body=cont('vmc_quit', exit_code=K(4)), after=cont('vmc_quit_exc'))
    # the same continuations with the keywords in another order: what is written is decided by the scheme, not by the call site
    vals['cont repeat (keywords after, body, count)'] = cont('vmc_repeat', after=cont('vmc_quit', exit_code=K(-1)), body=cont('vmc_quit_exc'), count=K(77))
    vals['cont until (keywords after, body)'] = cont('vmc_until', after=cont('vmc_quit_exc'), body=cont('vmc_quit', exit_code=K(1)))
    vals['cont while_cond (keywords after, body, cond)'] = cont('vmc_while_cond', after=cont('vmc_quit', exit_code=K(8)), body=cont('vmc_quit', exit_code=K(3)), cond=cont('vmc_quit_exc'))
    vals['cont while_body (keywords body, after, cond)'] = cont('vmc_while_body', body=cont('vmc_quit', exit_code=K(4)), after=cont('vmc_quit_exc'), cond=cont('vmc_quit', exit_code=K(9)))
    vals['cont pushint'] = cont('vmc_pushint', value=K(-(1 << 31)), next=cont('vmc_quit', exit_code=K(5)))
    # vmc_std / vmc_envelope carry control data: nargs:(Maybe uint13), stack, save list, cp:(Maybe int16) - `just 0` is not `nothing`
    VCD = prog.cls('VmControlData')

    def cdata(nargs, cp):
        return it.construct(VCD, [K('vm_ctl_data')], dict(nargs=K(nargs), stack=K(None), save=K(None), cp=K(cp)))
    code = cm.call_method(it, cm.new_cell(it, cm.tvm_bits(it, BA([Seg(16, 'k', '1111000011110000')])), []), 'begin_parse')
    vals['cont std (nargs 5, cp -1)'] = cont('vmc_std', cdata=cdata(5, -1), code=code)
    vals['cont std (no nargs, no cp)'] = cont('vmc_std', cdata=cdata(None, None), code=code)
    vals['cont std (nargs 0, cp 0)'] = cont('vmc_std', cdata=cdata(0, 0), code=code)
    vals['cont envelope'] = cont('vmc_envelope', cdata=cdata(8191, 32767), next=cont('vmc_quit', exit_code=K(6)))
    return vals


def vkey(it, v):
    """comparable structure of a stack value (input or parsed)"""
    if isinstance(v, K):
        return ('k', v.v)
    if isinstance(v, Inst) and v.cls is not None:
        n = v.cls.name
        if n == 'VmTuple':
            return ('tuple', tuple(vkey(it, x) for x in v.attrs['list'].items))
        if n in ('VmCont', 'VmControlData'):
            # an absent optional attribute and an attribute holding None are the same value
            return (n, tuple(sorted((k, vkey(it, x)) for k, x in v.attrs.items() if not (isinstance(x, K) and x.v is None))))
        if n in ('Cell', 'Slice', 'Builder'):
            return (n.lower(), bocrun.ckey(it, v))
    return ('?', repr(v))


def snapshot(it, v):
    """identity + length of every mutable container reachable from a caller-held value"""
    out = []
    if isinstance(v, ListV):
        out.append((id(v), len(v.items)))
        for x in v.items:
            out += snapshot(it, x)
    elif isinstance(v, Inst) and v.cls is not None and v.cls.name in ('VmTuple', 'VmCont'):
        # the object itself: any attribute added, removed or rebound by serialising is a modification of the caller's value
        out.append((id(v), tuple(sorted((k, id(x) if not isinstance(x, K) else repr(x.v)) for k, x in v.attrs.items()))))
        for x in v.attrs.values():
            out += snapshot(it, x)
    elif isinstance(v, Inst) and v.cls is not None and v.cls.name in ('Slice', 'Builder'):
        bits = it.getattr(v, 'bits')
        nat_ = bits.native if isinstance(bits, Inst) else bits
        out.append((id(v), len(nat_), len(it.getattr(v, 'refs').items), repr(v.attrs.get('ref_offset'))))
    return out


def check(run):
    sys.setrecursionlimit(20000)
    prog = Program()
    run.explanation = 'vm_* parsers checked against block.tlb by typestate; VmStack.serialize interpreted on all value kinds and decoded by a schema-directed decoder; caller-held containers compared before/after.'
    run.rule('D1r', 'per (vm class, constructor, length pattern): reads = schema fields (width, sign, order), references in order, exact consumption, passed length argument = schema argument', 30)
    run.rule('D1w', 'the cell emitted for a stack is consumed exactly by the schema-directed decoder as VmStack (tags, widths, signedness, tuple chaining, references)', 30)
    run.rule('D2', 'integers: written in the 64-bit form exactly when they fit int64 (-2^63 .. 2^63-1), else in the 257-bit form; every boundary value is written without error and decodes to itself', 16)
    run.rule('D3', 'serialising leaves the caller\'s list, tuples, slices and builders unchanged; a second serialisation gives the same cell', 30)
    run.rule('D4', 'deserialize(serialize(stack)) returns equal values in the same order with nothing left unread', 30)
    run.trust('CPython ast', 'checker interpreter', 'sa/tlbp.py + sa/tlbslice.py + sa/tlbdecode.py', 'bundled block.tlb', 'bitarray model')
    run.exhaustive = True
    # ---- D1r
    db, classmap, res = C16.analyse(prog, only=set(C16.C17_CLASSES))
    got = {c for _, c, *_ in res}
    missing = set(C16.C17_CLASSES) - got
    if missing:
        raise AnalysisError(f'vm classes without an analysable deserialize: {sorted(missing)}')
    run.rules['T'] = run.rules['D1r']
    run.floors['T'] = 30
    C16.report(run, prog, res, lambda cname, module: True)
    del run.rules['D1r']
    del run.floors['D1r']

    # ---- writer side
    ser = prog.method('VmStack', 'serialize')
    des = prog.method('VmStack', 'deserialize')
    w = prog.where(prog.method('VmStackValue', 'serialize'))
    it0 = Interp(prog)
    names = list(mk_values(it0, prog))
    stacks = [[]] + [[n] for n in names] + [['null', 'int 1', 'cell'], ['tuple(3)', 'slice', 'cont repeat', 'int 2^63'], ['builder', 'tuple nested']]
    history(run, prog, w)
    for stack in stacks:
        it = Interp(prog)
        vals = mk_values(it, prog)
        data = ListV([vals[n] for n in stack])
        tag = 'stack[' + ', '.join(stack) + ']'
        before = snapshot(it, data)
        keys_in = [vkey(it, v) for v in data.items]
        try:
            cell = it.call(Bound(prog.cls('VmStack'), ser), [data], {})
        except RaiseEx as e:
            rule = 'D2' if len(stack) == 1 and stack[0].startswith('int') else 'D1w'
            run.fail(rule, 'VmStackValue.serialize[int form]' if rule == 'D2' else f'VmStack.serialize[{stack[0].split()[0] if stack else "empty"}]', f'{tag}: raises {e}', w)
            continue
        run.evaluations += 1
        # D3
        after = snapshot(it, data)
        same = before == after and keys_in == [vkey(it, v) for v in data.items]
        try:
            cell2 = it.call(Bound(prog.cls('VmStack'), ser), [data], {})
            again = bocrun.ckey(it, cell2) == bocrun.ckey(it, cell)
        except RaiseEx as e:
            again = False
        kind = stack[0].split()[0] if stack else 'empty'
        run.check(same and again, 'D3', f'VmStack.serialize[{kind}: caller values]' if not (same and again) else f'unchanged {tag}',
                  f'{tag}: caller-held containers unchanged: {same}; second serialisation identical: {again}', w)
        # D1w / D2
        try:
            out = decode(it, db, cell, 'VmStack')
            fl = flat(out)
            ok, why = True, 'decoded as VmStack: ' + '; '.join(f'{p}={vrepr(v)[:24] if not isinstance(v, tuple) else v[0]}' for p, v in fl[:6])
            if len(stack) == 1 and stack[0].startswith('int'):
                v = vals[stack[0]].v
                decoded = [x for p, x in fl if p.endswith('value')]
                fits = -(1 << 63) <= v < (1 << 63)
                form64 = any(p.endswith('value') for p, x in fl) and len(cell.attrs['bits'].native) == 24 + 8 + 64
                ok = len(decoded) == 1 and isinstance(decoded[0], K) and decoded[0].v == v and form64 == fits
                why = f'value {v if abs(v) < 1 << 70 else hex(v)}: written in the {"64-bit" if form64 else "257-bit"} form, decodes to {vrepr(decoded[0])[:40] if decoded else None}'
                run.check(ok, 'D2', 'VmStackValue.serialize[int form]' if not ok else f'int form {stack[0]}', why, w)
        except Mismatch as e:
            ok, why = False, str(e)[:240]
        run.check(ok, 'D1w', f'VmStack.serialize[{kind}]' if not ok else f'written {tag}', f'{tag}: {why}', w)
        # D4
        try:
            back = it.call(Bound(prog.cls('VmStack'), des), [cm.call_method(it, cell, 'begin_parse')], {})
            keys_out = [vkey(it, v) for v in back.items] if isinstance(back, ListV) else None
            want = [('k', None) if k == ('k', None) else k for k in keys_in]
            # a builder comes back as a builder with the same content; a slice as a slice over the same data
            ok = keys_out == want
            why = 'same values in order' if ok else f'got {str(keys_out)[:160]}, stored {str(want)[:160]}'
        except RaiseEx as e:
            ok, why = False, f'raises {e}'
        run.check(ok, 'D4', f'VmStack round trip[{kind}]' if not ok else f'round trip {tag}', f'{tag}: {why}', prog.where(prog.method('VmStackValue', 'deserialize')))


def history(run, prog, w):
    """serialise, change a value the outer containers cannot see, serialise again: the second result must be that of an equal fresh stack;
    and: parsing one stack must not influence what parsing another stack returns"""
    ser0, des0 = prog.method('VmStack', 'serialize'), prog.method('VmStack', 'deserialize')
    it = Interp(prog)
    VT0 = prog.cls('VmTuple')
    s1 = ListV([it.construct(VT0, [ListV([K(7)])], {}), it.construct(VT0, [ListV([])], {})])
    s2 = ListV([it.construct(VT0, [ListV([])], {}), it.construct(VT0, [ListV([K(8), K(9)])], {}), it.construct(VT0, [ListV([K(1)])], {})])
    try:
        c1 = it.call(Bound(prog.cls('VmStack'), ser0), [s1], {})
        c2 = it.call(Bound(prog.cls('VmStack'), ser0), [s2], {})
        b1 = it.call(Bound(prog.cls('VmStack'), des0), [cm.call_method(it, c1, 'begin_parse')], {})
        k1 = [vkey(it, v) for v in b1.items]
        b2 = it.call(Bound(prog.cls('VmStack'), des0), [cm.call_method(it, c2, 'begin_parse')], {})
        k2 = [vkey(it, v) for v in b2.items]
        k1_after = [vkey(it, v) for v in b1.items]
        ok = k1 == [vkey(it, v) for v in s1.items] and k2 == [vkey(it, v) for v in s2.items] and k1_after == k1
        why = 'both parses return the stored values and the first result is unchanged by the second parse' if ok else \
            f'first parse {str(k1)[:80]}, second parse {str(k2)[:120]} (stored {str([vkey(it, v) for v in s2.items])[:120]}), first result afterwards {str(k1_after)[:80]}: state is shared between parses'
    except RaiseEx as e:
        ok, why = False, f'raises {e}'
    run.check(ok, 'D4', 'VmStack.deserialize[history]' if not ok else 'history: two parses in one process', why, w)
    # a serialisation that is refused (a value that fits no form) leaves nothing behind: the stacks serialised afterwards in the same
    # process get the cells a fresh process gives them
    it = Interp(prog)
    try:
        bad = ListV([it.construct(VT0, [ListV([K(1), K(2)])], {}), it.construct(VT0, [ListV([K(3)])], {}), K(1 << 257)])
        try:
            it.call(Bound(prog.cls('VmStack'), ser0), [bad], {})
            refused = False
        except RaiseEx:
            refused = True
        later = [ListV([it.construct(VT0, [ListV([K(4), K(5)])], {}), it.construct(VT0, [ListV([K(6)])], {})]),
                 ListV([it.construct(VT0, [ListV([it.construct(VT0, [ListV([K(7)])], {}), K(8)])], {})])]
        ok, why = True, f'a stack holding 2^257 is {"refused" if refused else "ACCEPTED"}; the stacks serialised afterwards are the cells of a fresh process and parse back to their values'
        for j, st_ in enumerate(later):
            got_c = it.call(Bound(prog.cls('VmStack'), ser0), [st_], {})
            it2 = Interp(prog)
            fresh = ListV([it2.construct(VT0, [ListV([K(4), K(5)])], {}), it2.construct(VT0, [ListV([K(6)])], {})]) if j == 0 else \
                ListV([it2.construct(VT0, [ListV([it2.construct(VT0, [ListV([K(7)])], {}), K(8)])], {})])
            want_c = it2.call(Bound(prog.cls('VmStack'), ser0), [fresh], {})
            backj = it.call(Bound(prog.cls('VmStack'), des0), [cm.call_method(it, got_c, 'begin_parse')], {})
            if bocrun.ckey(it, got_c) != bocrun.ckey(it2, want_c) or [vkey(it, v) for v in backj.items] != [vkey(it, v) for v in st_.items]:
                ok, why = False, f'after a refused serialisation, stack #{j + 1} serialises to another cell than in a fresh process (or does not parse back to its values): state is left behind by the refused call'
                break
    except RaiseEx as e:
        ok, why = False, f'raises {e}'
    run.check(ok, 'D3', 'VmStack.serialize[after a refused serialisation]' if not ok else 'history: refused serialisation leaves nothing behind', why, w)

    def build(it, extra):
        VT = prog.cls('VmTuple')
        inner = it.construct(VT, [ListV([K(5)] + ([K(42)] if extra else []))], {})
        outer = it.construct(VT, [ListV([inner, K(9)])], {})
        return ListV([outer, K(1)]), inner
    ser = prog.method('VmStack', 'serialize')
    for what in ('append to a nested tuple', 'replace an entry through .list'):
        it = Interp(prog)
        data, inner = build(it, False)
        try:
            it.call(Bound(prog.cls('VmStack'), ser), [data], {})
            if what.startswith('append'):
                cm.call_method(it, inner, 'append', K(42))
            else:
                inner.attrs['list'].items.append(K(42))
            second = it.call(Bound(prog.cls('VmStack'), ser), [data], {})
            it2 = Interp(prog)
            fresh, _ = build(it2, True)
            want = it2.call(Bound(prog.cls('VmStack'), ser), [fresh], {})
            ok = bocrun.ckey(it, second) == bocrun.ckey(it2, want)
            why = 'the second serialisation reflects the change' if ok else 'the second serialisation is stale: it differs from the cell of an equal, freshly built stack (state kept on the caller\'s objects)'
        except RaiseEx as e:
            ok, why = False, f'raises {e}'
        run.check(ok, 'D3', 'VmStack.serialize[history]' if not ok else f'history: {what}', f'serialise, {what}, serialise again: {why}', w)
