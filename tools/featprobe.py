"""Conformance probe of the checker's interpreter on generic Python idioms (NOT on the repository): every function of the probe module
below is evaluated by CPython (it is the probe's own code, constants only) and by sa.interp.Interp; results must agree.
A disagreement or an unsupported construct is a robustness gap: a behaviour-preserving refactoring of /repo that used the idiom would
make a check stop with ANALYSIS-ERROR.  usage: /venv/bin/python tools/featprobe.py [name-substring]
"""
import ast
import os
import shutil
import sys
import tempfile

VERIF = os.path.dirname(os.path.dirname(os.path.abspath(__file__)))
sys.path.insert(0, VERIF)

PROBE = r'''
import typing
import struct
import itertools
import functools
import collections
import math
import enum
import operator
from collections import namedtuple, OrderedDict, defaultdict, deque
from dataclasses import dataclass, field
from typing import NamedTuple, Optional, List


class _Memo:
    entries = {}
    def __init__(self, func):
        self.func = func
    def __call__(self, x):
        if x not in self.entries:
            self.entries[x] = self.func(x)
        return self.entries[x]

@_Memo
def _dbl(x):
    return 2 * x

@_Memo
def _tpl(x):
    return 3 * x

def _logged(fn):
    @functools.wraps(fn)
    def inner(*a, **k):
        return ('logged', fn(*a, **k))
    return inner

@_logged
def _plus(a, b=1):
    return a + b

class _WithDecoratedMethod:
    def __init__(self):
        self.n = 5
    @_logged
    def get(self, k):
        return self.n + k

def f_decorators_shared_class_state():
    # two decorated functions sharing one class-level dict: the second one returns the first one's cached value
    return _dbl(4), _tpl(4), _tpl(5), _dbl(5), _plus(1), _plus(1, b=5), _WithDecoratedMethod().get(2)

def f_iterators():
    l = [1, 2, 3, 4, 5]
    it = iter(l)
    a = next(it)
    first_even = next((x for x in it if x % 2 == 0), None)
    rest = list(it)
    it2 = iter(l)
    pairs = list(zip(it2, it2))
    it3 = iter(range(10))
    for x in it3:
        if x == 3:
            break
    after = next(it3)
    g = (y * y for y in range(5))
    h = next(g), next(g)
    tail = sum(g)
    anyit = iter([0, 1, 0, 5])
    found = any(anyit)
    left = list(anyit)
    stack = [(0, iter([10, 20]))]
    out = []
    while stack:
        k, pend = stack[-1]
        r = next((z for z in pend if z > 5), None)
        if r is None:
            stack.pop(); out.append(('done', k)); continue
        out.append(r)
        if r == 10:
            stack.append((1, iter([30])))
    return a, first_even, rest, pairs, after, h, tail, found, left, out, next(iter([]), 'dflt')

def f_divmod():
    q, r = divmod(1023, 8)
    return q, r, divmod(-7, 2)

def f_enumerate_zip():
    out = []
    for i, (a, b) in enumerate(zip([1, 2, 3], 'abc'), start=1):
        out.append((i, a, b))
    return out

def f_walrus():
    data = [1, 5, 9]
    if (n := len(data)) > 2:
        return n * 2
    return 0

def f_any_all():
    xs = [1, 2, 3]
    return any(x > 2 for x in xs), all(x > 0 for x in xs), any(x > 5 for x in xs), sum(x * x for x in xs)

def f_genexp_join():
    return b''.join(bytes([i]) for i in range(4)), ''.join(str(i) for i in range(3)), b''.join([b'ab', b'cd'])

def f_int_bytes():
    return int.from_bytes(b'\x01\x02', 'big'), (258).to_bytes(2, 'little'), int.from_bytes(b'\xff', 'big', signed=True), (5).to_bytes(2, byteorder='big'), int.from_bytes(b'\x01\x02', byteorder='little')

def f_namedtuple():
    P = namedtuple('P', 'x y')
    p = P(1, y=2)
    a, b = p
    return p.x + p.y + a + b, p[0], p._replace(x=5).x

def f_star_unpack():
    a, *b = [1, 2, 3]
    *c, d = (4, 5, 6)
    return a, b, c, d, [*b, *c], (*b, 9)

def f_dict_ops():
    d = {'a': 1}
    d.setdefault('b', []).append(2)
    e = {**d, 'c': 3}
    e.update(z=1)
    return sorted(e.items(), key=lambda kv: kv[0]), e.get('q', 7), list(e), 'a' in e, e.pop('a'), len(e)

def f_nested_func_closure():
    total = 0
    def add(x):
        nonlocal total
        total += x
        return total
    add(2); add(3)
    return total

def f_try_finally():
    out = []
    try:
        try:
            raise ValueError('x')
        except (KeyError, ValueError) as e:
            out.append(str(e))
        else:
            out.append('no')
        finally:
            out.append('fin')
    finally:
        out.append('outer')
    return out

def f_while_else():
    i = 0
    while i < 3:
        i += 1
    else:
        i += 10
    for j in range(2):
        pass
    else:
        i += 100
    return i

def f_slices():
    b = bytes(range(10))
    return b[2:5], b[-3:], b[:-8], b[::2], b[::-1][:2], b[5], list(range(10))[1:8:3], 'hello'[1:-1], b[8:100], b[3:3]

def f_string_fmt():
    n = 5
    return f'{n:03d}', f'{n:b}', f'{255:02x}', f'{n!r}', '{}-{}'.format(1, 2), '%d:%s' % (3, 'x'), f'{n:>4}', format(10, '08b'), bin(5), hex(255), f'{3.0:.1f}'

def f_bit_ops():
    x = 0b1011
    return x.bit_length(), x >> 1, x << 3, x & 6, x | 4, x ^ 1, ~x, -x % 8, (x >> 2) & 1, x.bit_count() if hasattr(x, 'bit_count') else bin(x).count('1'), 7 // 2, -7 // 2, 7 % -3, 2 ** 10, pow(2, 10, 1000)

def f_ceil_div():
    return [-(-n // 8) for n in (0, 1, 8, 9)], [(n + 7) // 8 for n in (0, 1, 8, 9)], [(n + 7) >> 3 for n in (0, 1, 8, 9)], math.ceil(9 / 8), [math.ceil(n / 8) for n in (0, 1, 8, 9)]

def f_conditional_chain():
    x = 5
    return 'a' if x < 3 else 'b' if x < 6 else 'c', 0 < x <= 5, not x, x or 3, 0 or None or 'z', x and 0

def f_class_basic():
    class A:
        K = 3
        def __init__(self, v=None):
            self.v = v if v is not None else []
        @property
        def n(self):
            return len(self.v)
        @staticmethod
        def s(x):
            return x + 1
        @classmethod
        def c(cls):
            return cls.K
        def __len__(self):
            return 42
        def __eq__(self, o):
            return isinstance(o, A) and self.v == o.v
        def __hash__(self):
            return hash(tuple(self.v))
    a = A([1]); b = A([1])
    return a.n, A.s(1), A.c(), len(a), a == b, a != A(), a.K

def f_dataclass():
    @dataclass
    class P:
        x: int
        y: int = 2
        z: list = field(default_factory=list)
    p = P(1)
    p.z.append(3)
    return p.x, p.y, p.z, P(1, 2) == P(1, 2)

def f_typing_namedtuple():
    class Q(NamedTuple):
        a: int
        b: int = 7
    q = Q(1)
    return q.a, q.b, tuple(q)

def f_bytearray():
    ba = bytearray()
    ba += b'ab'
    ba.append(99)
    ba.extend(b'de')
    ba[0] = 65
    return bytes(ba), len(ba), bytes(bytearray(3)), bytearray(b'xy') + b'z'

def f_struct():
    return struct.pack('>H', 258), struct.unpack('<I', b'\x01\x00\x00\x00')[0], struct.pack('>BBH', 1, 2, 3), struct.unpack('>HB', b'\x00\x01\x02')

def f_list_methods():
    l = [3, 1, 2]
    l.sort(); l.insert(0, 9); l.extend([7]); l.reverse()
    m = l.copy(); m.pop(); m.remove(3)
    return l, m, l.index(3), l.count(7), sorted(l, reverse=True), list(reversed(l)), min(l), max(l), sum(l), l[-1], l * 2, [0] * 3

def f_set_ops():
    s = {1, 2}
    s.add(3); s.discard(1); s |= {5}
    return sorted(s), 2 in s, sorted(s & {2, 9}), sorted(s - {2}), len(s), sorted(frozenset([3, 3, 4]))

def f_isinstance_types():
    return isinstance(3, int), isinstance(True, int), isinstance(b'', (bytes, bytearray)), isinstance('s', str), isinstance([], (list, tuple)), isinstance(None, type(None)), type(3) is int, type(b'') == bytes, callable(len)

def f_exceptions_custom():
    class E(Exception):
        pass
    class F(E):
        def __init__(self, msg, code=1):
            super().__init__(msg)
            self.code = code
    try:
        raise F('bad', code=7)
    except E as e:
        return e.code, str(e), isinstance(e, Exception), e.args

def f_generator_function():
    def gen(n):
        for i in range(n):
            if i == 2:
                continue
            yield i * 2
    def gen2():
        yield from gen(4)
        yield 99
    return list(gen(4)), list(gen2()), sum(gen(3)), next(iter(gen(5)))

def f_itertools():
    return list(itertools.chain([1], [2, 3])), list(itertools.product([0, 1], repeat=2)), list(itertools.accumulate([1, 2, 3])), list(itertools.islice(range(10), 2, 5)), list(itertools.zip_longest([1], [2, 3])), list(itertools.repeat(0, 2)), list(itertools.chain.from_iterable([[1], [2]]))

def f_functools():
    return functools.reduce(lambda a, b: a * 2 + b, [1, 0, 1], 0), functools.reduce(operator.or_, [1, 2, 4]), functools.partial(int, base=2)('101')

def f_lru_cache():
    calls = []
    @functools.lru_cache(maxsize=None)
    def sq(x):
        calls.append(x)
        return x * x
    return sq(3), sq(3), sq(4), len(calls)

def f_global_const_table():
    T = tuple(i * i for i in range(4))
    D = {i: chr(65 + i) for i in range(3)}
    return T[3], D[2], T.index(4), len(D)

def f_match_tuple_compare():
    return (1, 2) < (1, 3), [1, 2] == [1, 2], (1, 'a') == (1, 'a'), b'ab' < b'b', 'a' < 'b', (2,) > (1, 9), None is None, [] is not None

def f_str_methods():
    s = ' Ab-c '
    return s.strip(), s.lower(), s.upper(), s.split('-'), s.replace('b', 'x'), s.strip().startswith('Ab'), s.find('c'), 'x'.join(['a', 'b']), 'abc'.encode(), b'ab'.decode(), 'a,b'.partition(','), '0x1f'.removeprefix('0x') if hasattr(str, 'removeprefix') else '1f', '12'.zfill(4), 'ab'.ljust(4, '0'), 'ab'.rjust(4, '0'), '7'.isdigit(), 'abc'[::-1], 'a b'.split(), 'AbC'.swapcase(), 'a-b'.rsplit('-', 1), 'abc'.index('c'), 'abc'.endswith(('c', 'd')), 'aXb'.count('X')

def f_bytes_methods():
    b = b'\x00ab\x00'
    return b.hex(), bytes.fromhex('00ff'), b.strip(b'\x00'), b.startswith(b'\x00a'), b.find(b'b'), b.replace(b'a', b'z'), b.rjust(6, b'\x01'), b.ljust(6, b'\x01'), b.split(b'a'), b[1:3].upper(), bytes(3), bytes([1, 2]), b.count(b'\x00'), b.endswith(b'\x00'), b.lstrip(b'\x00'), b.rstrip(b'\x00'), b'%02x' % 5 if False else 1, b.index(b'a'), b * 2, b.center(6, b'-'), b.zfill(6)

def f_int_conv():
    return int('101', 2), int('ff', 16), int('-12'), int(3.9), int(True), int('0b11', 0), int('z', 36), abs(-3), round(2.5), round(7 / 2), float(3), 7 / 2, bool(0), bool([0]), str(12), repr('a'), chr(65), ord('A'), min(3, 1, 2), max([1, 5], default=0), max(3, 7)

def f_ordered_default_dict():
    od = OrderedDict(); od['b'] = 1; od['a'] = 2
    dd = defaultdict(list); dd['x'].append(1); dd['x'].append(2)
    dq = deque([1, 2, 3]); dq.appendleft(0); r = dq.pop(); l = dq.popleft()
    c = collections.Counter('aab')
    return list(od), dict(dd), list(dq), r, l, c['a'], len(dq)

def f_enum():
    class Kind(enum.IntEnum):
        A = 1
        B = 2
    class Col(enum.Enum):
        R = 'r'
    return Kind.A + 1, Kind(2) is Kind.B, Kind.B.name, Kind.B.value, Col.R.value, Col('r') is Col.R, Kind.A == 1

def f_kwargs_star():
    def g(a, b=2, *args, c=3, **kw):
        return a, b, args, c, sorted(kw.items())
    t = (1, 2, 3)
    d = {'c': 9, 'z': 1}
    return g(*t, **d), g(1), g(1, c=5), g(a=1, b=7)

def f_chained_methods_and_getattr():
    class B:
        def __init__(self):
            self.items = []
        def add(self, x):
            self.items.append(x)
            return self
    b = B().add(1).add(2)
    return b.items, getattr(b, 'items'), getattr(b, 'nope', 5), hasattr(b, 'add'), hasattr(b, 'q')

def f_comprehension_nested():
    return [(i, j) for i in range(3) for j in range(i) if (i + j) % 2], {i: [j for j in range(i)] for i in range(3)}, {x % 3 for x in range(7)}, [x if x % 2 else -x for x in range(4)]

def f_assert_msg_del():
    l = [1, 2, 3, 4]
    del l[0]
    del l[-1:]
    d = {'a': 1, 'b': 2}
    del d['a']
    assert l, 'must be non-empty'
    return l, d

def f_local_class_dunder():
    class V:
        def __init__(self, x): self.x = x
        def __add__(self, o): return V(self.x + o.x)
        def __lt__(self, o): return self.x < o.x
        def __getitem__(self, i): return self.x * i
        def __contains__(self, i): return i == self.x
        def __iter__(self): return iter([self.x, self.x + 1])
        def __bool__(self): return self.x != 0
        def __repr__(self): return f'V({self.x})'
        def __call__(self, k): return self.x + k
    a = V(1) + V(2)
    return a.x, V(1) < V(2), a[3], 3 in a, list(a), bool(V(0)), repr(a), a(4), sorted([V(3), V(1)])[0].x

def f_early_return_loop():
    def find(xs, t):
        for i, x in enumerate(xs):
            if x == t:
                return i
        return -1
    return find([4, 5, 6], 6), find([], 1)

def f_math_misc():
    return math.log2(8), math.floor(2.7), math.ceil(2.1), (1 << 10) - 1, math.gcd(12, 18), 10 ** 3 // 7, 2 ** -1, 5 // 1, operator.itemgetter(1)([7, 8]), math.isqrt(17) if hasattr(math, 'isqrt') else 4

def f_map_filter():
    return list(map(int, ['1', '2'])), list(filter(None, [0, 1, 2])), list(map(lambda a, b: a + b, [1, 2], [3, 4])), list(zip(*[(1, 2), (3, 4)])), dict(zip('ab', [1, 2])), tuple(map(str, (1, 2)))

def f_memoryview():
    m = memoryview(b'abcdef')
    return bytes(m[1:3]), m[0], len(m), m[2:].tobytes()

def f_with_ctx():
    class C:
        def __enter__(self): return 5
        def __exit__(self, *a): return False
    with C() as v:
        r = v + 1
    return r

def f_int_subclass_bool_arith():
    return True + True, (3 > 2) * 5, sum([True, False, True]), [1, 2][True], 5 * (not 0)

def f_ternary_tuple_swap():
    a, b = 1, 2
    a, b = b, a
    (c, d), e = (3, 4), 5
    x = y = 7
    return a, b, c, d, e, x, y

def f_global_helper_default():
    def pad(b, n=4, fill=b'\x00'):
        return b + fill * (-len(b) % n)
    return pad(b'abc'), pad(b'abcd'), pad(b'a', 2), pad(b'', fill=b'x')

def f_range_ops():
    r = range(2, 11, 3)
    return list(r), len(r), r[1], 8 in r, list(range(5, 0, -2)), list(reversed(range(3))), range(0, 10)[2:5][1]

import io
import binascii
import zlib
import contextlib

try:
    _POP = int.bit_count
except AttributeError:
    def _POP(x):
        return bin(x).count('1')

_PA, _PB = (lambda: (3, 4))()
_PTBL = []
for _pi in range(4):
    _PTBL.append(_pi * _pi)
if len(_PTBL) > 3:
    _PBIG = True
else:
    _PBIG = False


class _Late:
    table = ()

    def run(self, k):
        return self.table[k](self, k)

    def _a(self, k):
        return ('a', k)

    def _b(self, k):
        return ('b', k)
    DISPATCH = {0: _a, 1: _b}
    PAIRS = ((int, _a), (str, _b))


_Late.table = (_Late._a, _Late._b)


def _make(name):
    def m(self, n):
        return getattr(self, name)(n) + 1
    m.__name__ = 'x' + name
    return m


class _Gen:
    def base(self, n):
        return n * 2
    plus = _make('base')


_SENT = object()


def f_module_control_flow():
    return _POP(0b1011), _PA, _PB, _PTBL, _PBIG


def f_class_tables():
    o = _Late()
    return o.run(0), o.run(1), _Late.DISPATCH[1](o, 5), [w(o, 1) for t, w in _Late.PAIRS if isinstance(7, t)]


def f_generated_methods():
    return _Gen().plus(4)


def f_sentinel():
    d = {'a': 1}
    return d.get('a', _SENT) is _SENT, d.get('b', _SENT) is _SENT, _SENT is _SENT, 5 is not _SENT


def f_bytesio():
    b = io.BytesIO()
    b.write(b'ab')
    b.write(bytes([1, 2]))
    return b.getvalue(), b.tell()


def f_slice_assign():
    a = bytearray(6)
    a[1:3] = b'xy'
    a[4:] = b'z'
    l = [1, 2, 3, 4]
    l[1:3] = [9]
    return bytes(a), l


def f_struct_iter():
    return [x for (x,) in struct.iter_unpack('<H', b'\x01\x00\x02\x00')], struct.Struct('>I').unpack(b'\x00\x00\x01\x00')


def f_methodcaller():
    f = operator.methodcaller('upper')
    g = operator.methodcaller('split', ',')
    return f('ab'), g('a,b'), operator.index(5), int.bit_length(9), str.upper('q'), bytes.hex(b'\x01')


def f_lru_call_form():
    calls = []

    def sq(x):
        calls.append(x)
        return x * x
    c = functools.lru_cache(maxsize=8)(sq)
    return c(3), c(3), c(4), len(calls)


def f_hashlib_attrs():
    import hashlib
    return hashlib.sha256().digest_size, hashlib.sha512(b'x').digest_size, hashlib.sha256().block_size


def f_memoryview_more():
    m = memoryview(b'abcdef')
    return bytes(m[1:3]), m.nbytes, bytes(m.cast('B')[2:]), len(m), m[0]


def f_str_partition():
    return 'a:b:c'.partition(':'), 'abc'.partition(':'), 'a:b:c'.rpartition(':'), 'x' * 0, b'ab' * 0


def f_binascii():
    return binascii.crc_hqx(b'123456789', 0), zlib.crc32(b'abc'), binascii.hexlify(b'\x01\xff')


def f_contextlib():
    with contextlib.suppress(KeyError):
        {}['a']
    return 1


def f_int_tofrom():
    return (300).to_bytes(2, 'big'), int.from_bytes(b'\x01\x2c', 'big'), (5).to_bytes(1, 'little'), (-1).to_bytes(2, 'big', signed=True), int.from_bytes(b'\xff', 'big', signed=True)


def f_format_spec():
    return f'{255:#x}', f'{5:>4}', '{0:03d}'.format(7), '%04x' % 255, f'{3.0:.1f}', format(10, 'b')


def f_try_else_finally():
    out = []
    for v in (1, 0):
        try:
            r = 10 // v
        except ZeroDivisionError:
            out.append('zero')
        else:
            out.append(r)
        finally:
            out.append('f')
    return out


def f_frozen_dataclass_property():
    @dataclass(frozen=True)
    class P:
        w: int
        t: tuple = field(default=(), repr=False)

        @property
        def mask(self):
            return (1 << self.w) - 1

        def __post_init__(self):
            if self.w < 0:
                raise ValueError('w')
    p = P(8, (1, 2))
    try:
        P(-1)
        bad = False
    except ValueError:
        bad = True
    return p.mask, p.t, bad, p == P(8, (1, 2))


def f_slots_class_update_chain():
    class R:
        __slots__ = ('_m', '_r')

        def __init__(self, m):
            self._m = m
            self._r = 0

        def update(self, data):
            for b in data:
                self._r = (self._r + b) % self._m
            return self

        def value(self):
            return self._r
    return R(7).update(b'abc').update([1, 2]).value()


def f_divmod_table_lookup():
    t = tuple((n >> 4, n & 15) for n in range(32))
    q, r = divmod(300, 7)
    return t[17], q, r, [divmod(x, 8) for x in (7, 8, 9)]


class _Rec(NamedTuple):
    h: bytes
    d: int = 0

    TOP = 0x80
    LOW = 0x11

    @property
    def d_bytes(self):
        return self.d.to_bytes(2, 'big')

    def bump(self, k):
        return self._replace(d=self.d + k)

    @classmethod
    def zero(cls):
        return cls(b'', 0)


def f_namedtuple_members():
    r = _Rec(b'ab', 5)
    flags = [bool(x.d & x.TOP) for x in (_Rec(b'', 0x91), _Rec(b'', 0x11))] + [(x.d & ~x.TOP) == x.LOW for x in (_Rec(b'', 0x91), _Rec(b'', 0x51))]
    return flags, _Rec.TOP, _Rec._fields, r.d_bytes, tuple(r.bump(2)), r.bump(2).d_bytes, tuple(_Rec.zero()), r[0], r.h, tuple(r), [x.d for x in (r, r.bump(1))], r == _Rec(b'ab', 5), len(r)


def f_keyword_arguments():
    import itertools as _it
    l = [3, 1, 2]
    l2 = sorted(l, reverse=True)
    l.sort(key=lambda x: -x)
    d = {'a': 1}
    return (list(_it.accumulate([1, 2, 3], initial=0)), list(_it.accumulate([1, 2, 3], lambda a, b: a * b)), l2, l, max([], default=7), sum([1, 2], 10),
            list(enumerate('ab', start=5)), int('ff', 16), int.from_bytes(b'\xff\xfe', 'big', signed=True), (258).to_bytes(length=2, byteorder='little'),
            'a,b,c'.split(',', 1), b'ab'.rjust(4, b'0'), '7'.zfill(3), pow(3, 4, 5), round(2.567, 1), [1, 2, 1].index(1, 1), 'abcabc'.find('c', 3),
            min('bb', 'a', key=len), list(_it.islice(range(10), 2, 8, 3)), list(_it.zip_longest([1], [2, 3], fillvalue=0)), d.pop('z', 9), d.setdefault('q', 4),
            list(map(lambda a, b: a + b, [1, 2], [10, 20])), dict(zip('ab', (1, 2))), bytes(3), bytes([65, 66]), bytearray(b'x') * 2, list(reversed(range(3))),
            sorted({'b': 1, 'a': 2}.items(), key=lambda kv: kv[1]), list(_it.chain([1], (2, 3))), list(_it.repeat(5, 2)), divmod(-7, 2), (-7) // 2, (-7) % 4, 7 >> 1, ~5 & 0xff)


def f_lazy_streams():
    import itertools as _it
    evens = filter(lambda x: x % 2 == 0, (x * 3 for x in _it.count(1)))
    first = next(evens)
    second = next(evens)
    sq = map(lambda x: x * x, _it.count(5, 2))
    g = (x for x in [1, 2, 3])
    a = next(g)
    rest = list(g)
    again = list(g)
    m = map(str, iter([1, 2]))
    numbered = dict(zip('abc', _it.count()))
    pairs = list(zip(_it.count(10), 'xy'))
    return numbered, pairs, first, second, next(sq), next(sq), list(_it.islice(_it.count(10, 5), 3)), a, rest, again, next(m), list(m), next(iter([]), 'dflt'), next((x for x in _it.count() if x * x > 50))


class _Bag:
    def __init__(self, kind, **kw):
        self.kind = kind
        for k, v in kw.items():
            setattr(self, k, v)


def f_vars_order():
    a = _Bag('x', after=1, body=2)
    b = _Bag('x', body=2, after=1)
    c = _Bag('y')
    fields = vars(c)
    fields.update({'p': 1, 'q': 2})
    fields['r'] = c.p + c.q
    c.__dict__.setdefault('s', 9)
    del fields['q']
    return (list(vars(a)), list(vars(b).values()), list(a.__dict__.items()), vars(b)['body'], 'kind' in vars(a), len(vars(a)),
            c.p, c.r, c.s, hasattr(c, 'q'), sorted(vars(c)))


def _gen3(n):
    yield (n, 0, 'a')
    yield (n - 1, 1, 'b')
    if n > 5:
        yield (0, 2, 'c')


def f_generator_consumers():
    return (min(_gen3(3)), max(_gen3(9)), min(_gen3(9))[2], sorted(_gen3(7)), list(_gen3(1)), tuple(_gen3(6)), sum(x[0] for x in _gen3(9)),
            dict((c, a) for a, b, c in _gen3(9)), min(_gen3(2), key=lambda t: t[1]), len(set(_gen3(9))), any(x[0] == 0 for x in _gen3(9)))


def _classify(x):
    match x:
        case slice(start=a, stop=b):
            return ('slice', a, b)
        case bool():
            return 'bool'
        case int() | float() as num if num > 100:
            return ('big', num)
        case int(n):
            return ('int', n)
        case 'a' | 'b':
            return 'ab'
        case str():
            return 'str'
        case []:
            return 'empty'
        case [first, *rest] if rest:
            return ('seq', first, rest)
        case (only,):
            return ('one', only)
        case {'k': v, **others}:
            return ('map', v, sorted(others))
        case None:
            return 'none'
        case _Rec(h=hh, d=0):
            return ('rec0', hh)
        case _Rec(hh, dd):
            return ('rec', hh, dd)
        case _:
            return 'other'


def f_match_statement():
    return [_classify(v) for v in (slice(1, 5), slice(None, 3), True, 5, 500, 2.5, 'a', 'zz', [], [1, 2, 3], (9,), {'k': 1, 'z': 2}, {'q': 1}, None, b'xy',
                                   _Rec(b'q', 0), _Rec(b'q', 4))]


def f_iter_sentinel():
    src = [1, 1, 1, 0, 1, 0]
    pop = lambda: src.pop(0)
    n = sum(1 for _ in iter(pop, 0))
    rest = list(iter(pop, 0))
    return n, rest, src


def _walk(src, log):
    log.append('start')
    while src:
        log.append(('before', len(src)))
        yield src[0]
        log.append(('after', len(src)))
    log.append('end')


def _outer(src, log):
    yield 'head'
    yield from _walk(src, log)
    yield 'tail'


def f_lazy_generators():
    src, log = [5, 6, 7], []
    g = _outer(src, log)
    first = next(g)
    log.append('created')
    seen = []
    for x in g:
        seen.append(x)
        if src:
            src.pop(0)          # the consumer consumes the shared state between two items
    g2 = _walk([1], [])
    a = next(g2)
    def boom():
        yield 1
        raise KeyError('late')
    try:
        r = list(boom())
    except KeyError as e:
        r = 'raised at consumption'
    b = boom()
    return first, seen, log, a, r, next(b), next(iter(_walk([], [])), 'empty')


class _EvA(NamedTuple):
    key: str
    source: list


class _EvB(NamedTuple):
    source: list


_EvAny = typing.Union[_EvA, _EvB]


def f_namedtuple_isinstance():
    evs = [_EvB([1]), _EvA('k', [2]), _EvB([3])]
    kinds = ['B' if isinstance(e, _EvB) else 'A' for e in evs]
    return kinds, [isinstance(e, _EvA) for e in evs], [isinstance(e, tuple) for e in evs], isinstance(evs[0], (_EvA, _EvB)), [e.source for e in evs], evs[1].key, type(evs[1]).__name__


class _Tag(enum.IntFlag):
    A = 0x11
    B = 0x51
    T = 0x80

    @classmethod
    def make(cls, a, t):
        tag = cls.A if a else cls.B
        if t:
            tag |= cls.T
        return tag

    def split(self):
        if _Tag.T in self:
            return self ^ _Tag.T, True
        return self, False


def f_intflag():
    x = _Tag.make(True, True)
    k, t = _Tag(0x91).split()
    k2, t2 = _Tag(0x51).split()
    return (int(x), bytes((x,)), bytes((_Tag.make(False, False),)), k == _Tag.A, k is _Tag.A, t, k2 == _Tag.B, t2, int(_Tag.A | _Tag.T), _Tag.T in x, _Tag.B in _Tag.A,
            isinstance(x, _Tag), isinstance(x, int), x == 0x91, (x & 0x80) != 0, int(_Tag(0x11)), x.value)


def f_container_dunders():
    d = {3: 'c', 1: 'a'}
    l = [10, 20, 30]
    d.__setitem__(2, 'b')
    return (list(map(d.__getitem__, sorted(d))), list(map(l.__getitem__, (2, 0))), d.__contains__(2), l.__contains__(5), d.__len__(), list(d.__iter__()),
            sorted(d, key=d.__getitem__), list(map(l.__getitem__, range(len(l)))))


class _Outer:
    class _Row(NamedTuple):
        tag: str
        width: int

    class _Plain:
        def __init__(self, x):
            self.x = x

    _LO, _MID, _HI = 0, 1, 2
    KIND = {'a': _LO, 'b': _HI}
    ROWS = (_Row('a', 1), _Row('b', 2))
    BY_TAG = {r.tag: r for r in ROWS}
    DEFAULT = _Plain(7)

    @classmethod
    def width(cls, tag):
        return cls.BY_TAG[tag].width + cls.DEFAULT.x + cls._Plain(1).x


def f_nested_classes():
    return _Outer._MID, _Outer.KIND['b'], _Outer.width('b'), _Outer.ROWS[0].tag, isinstance(_Outer.ROWS[1], _Outer._Row), _Outer._Plain(3).x, _Outer._Row('z', 9).width


class _Mask:
    def __init__(self, m):
        self.m = m

    def __ior__(self, other):
        self.m |= other.m
        return self

    __or__ = __ior__

    def __rshift__(self, n):
        return _Mask(self.m >> n)

    def __and__(self, other):
        if not isinstance(other, _Mask):
            return NotImplemented
        return _Mask(self.m & other.m)

    def __rand__(self, other):
        return _Mask(self.m & other)

    def __eq__(self, other):
        return isinstance(other, _Mask) and self.m == other.m

    def __hash__(self):
        return hash(self.m)


def f_operator_dunders():
    a, b = _Mask(1), _Mask(4)
    c = a | b               # the alias of the in-place operator: a itself is changed
    d = _Mask(0)
    d |= _Mask(2)
    e = (_Mask(6) >> 1)
    return a.m, c is a, c.m, d.m, e.m, (_Mask(7) & _Mask(5)).m, (3 & _Mask(6)).m, _Mask(3) == _Mask(3), _Mask(3) != _Mask(4), len({_Mask(1), _Mask(1)})


class _Strict:
    def __init__(self, v):
        self.v = v

    def __eq__(self, other):
        if other.__class__ is not self.__class__:
            return NotImplemented
        return self.v == other.v

    def __hash__(self):
        return hash(self.v)


class _StrictSub(_Strict):
    pass


def f_eq_notimplemented():
    a, b, c = _Strict(1), _StrictSub(1), _Strict(1)
    return a == b, b == a, a == c, a != b, a == 1, a != 1, b == _StrictSub(1), a in [b], a in [c], len({a, b}), len({a, c})


@dataclass
class _DcEq:
    a: int


@dataclass(frozen=True)
class _DcFrozen:
    a: int


@dataclass(eq=False)
class _DcId:
    a: int


class _EqOnly:
    def __eq__(self, other):
        return True


def f_hashability():
    out = []
    for mk_ in (lambda: _DcEq(1), lambda: _DcFrozen(1), lambda: _DcId(1), lambda: _EqOnly(), lambda: _Strict(2)):
        try:
            hash(mk_())
            out.append('hashable')
        except TypeError:
            out.append('unhashable')
    return out, hash(_DcFrozen(3)) == hash(_DcFrozen(3)), len({_DcFrozen(1), _DcFrozen(1)})


@functools.singledispatch
def _kind(x, extra=0):
    return ('other', type(x).__name__, extra)


@_kind.register(bool)
def _(x, extra=0):
    return ('bool', x, extra)


@_kind.register(int)
def _(x, extra=0):
    return ('int', x + extra)


@_kind.register
def _(x: str, extra=0):
    return ('str', x.upper())


@_kind.register(bytes)
@_kind.register(bytearray)
def _(x, extra=0):
    return ('bytes-like', len(x))


class _Base:
    pass


class _Derived(_Base):
    pass


@_kind.register(_Base)
def _(x, extra=0):
    return ('base-or-derived', type(x).__name__)


class _Sink:
    def __init__(self):
        self.out = []

    @functools.singledispatchmethod
    def put(self, x):
        self.out.append(('other', type(x).__name__))

    @put.register(int)
    def _put_int(self, x):
        self.out.append(('int', x))

    @put.register(str)
    def _put_str(self, x):
        self.out.append(('str', x))

    @put.register(_Base)
    def _put_base(self, x):
        self.out.append(('base', type(x).__name__))


def f_singledispatchmethod():
    s = _Sink()
    for v in (True, 3, 'q', 2.5, _Derived(), None):
        s.put(v)
    return s.out


def f_singledispatch():
    return [_kind(v) for v in (True, 5, 'ab', b'xy', bytearray(b'z'), 2.5, None, [1], _Base(), _Derived())], _kind(7, extra=3), _kind(7, 1)


import contextlib


@contextlib.contextmanager
def _pushed(path, bits, log):
    n = len(path)
    path.extend(bits)
    log.append(('enter', list(path)))
    try:
        yield path
    finally:
        del path[n:]
        log.append(('exit', list(path)))


@contextlib.contextmanager
def _swallow(log):
    try:
        yield 'token'
    except KeyError:
        log.append('swallowed')


def f_contextmanager():
    path, log = [1], []
    with _pushed(path, [2, 3], log) as p:
        inner = list(p)
        with _pushed(path, [4], log):
            deep = list(path)
    try:
        with _pushed(path, [9], log):
            raise ValueError('boom')
    except ValueError:
        log.append('propagated')
    with _swallow(log) as tok:
        raise KeyError('x')
    def early():
        with _pushed(path, [7], log):
            return list(path)
    e = early()
    return inner, deep, path, log, tok, e


class _Reg:
    registry = {}
    tag = None

    def __init_subclass__(cls, tag=None, **kwargs):
        super().__init_subclass__(**kwargs)
        if tag is not None:
            cls.tag = tag
            _Reg.registry[tag] = cls

    @classmethod
    def pick(cls, tag):
        return cls.registry[tag]

    def name(self):
        return type(self).__name__


class _RegA(_Reg, tag='0'):
    pass


class _RegB(_Reg, tag='10'):
    pass


class _RegB2(_RegB):
    pass


def f_init_subclass():
    return sorted(_Reg.registry), _Reg.pick('10')().name(), _RegA.tag, _RegB2.tag, _Reg.tag, _Reg.pick('0') is _RegA


def f_str_bits():
    s = bin(0b101101)[2:]
    return s, s.zfill(8), int(s[::-1], 2), s.count('1'), s.rfind('1'), s[:3] + '0' * 2, '{:08b}'.format(5), f'{5:08b}'[-3:], ''.join('1' if c == '0' else '0' for c in s)
'''


def main():
    want = sys.argv[1:] and sys.argv[1]
    tmp = tempfile.mkdtemp(prefix='featprobe_', dir='/tmp')
    try:
        pkg = os.path.join(tmp, 'pytoniq_core')
        os.makedirs(pkg)
        open(os.path.join(pkg, '__init__.py'), 'w').write('')
        open(os.path.join(pkg, 'probe.py'), 'w').write(PROBE)
        os.environ['VERIF_REPO'] = tmp
        from sa.front import Program
        from sa.interp import Interp
        from sa import values as V
        ns = {}
        exec(compile(PROBE, 'probe', 'exec'), ns)
        prog = Program(pkg)
        names = [n.name for n in ast.parse(PROBE).body if isinstance(n, ast.FunctionDef) and n.name.startswith('f_')]
        bad = 0
        for name in names:
            if want and want not in name:
                continue
            exp = ns[name]()
            try:
                it = Interp(prog)
                got = it.call(prog.modules['probe'].funcs[name], [], {})
                gotpy = to_py(it, got)
                ok = gotpy == exp and repr(gotpy) == repr(exp)
                msg = '' if ok else f'\n      expected {exp!r}\n      got      {gotpy!r}'
            except Exception as e:
                ok = False
                msg = f'\n      {type(e).__name__}: {str(e)[:300]}'
            bad += not ok
            print(('ok   ' if ok else 'FAIL ') + name + msg)
        print(f'{len(names) - bad}/{len(names)} idiom groups agree')
        return 1 if bad else 0
    finally:
        shutil.rmtree(tmp, ignore_errors=True)


def to_py(it, v):
    from sa import values as V
    if isinstance(v, V.K):
        return v.v
    if isinstance(v, V.ListV):
        items = [to_py(it, x) for x in v.items]
        return tuple(items) if getattr(v, 'tup', False) else items
    if isinstance(v, V.DictV):
        return {to_py(it, v.keyobj[k]) if k in getattr(v, 'keyobj', {}) else k: to_py(it, x) for k, x in v.d.items()}
    if hasattr(V, 'SetV') and isinstance(v, V.SetV):
        return {to_py(it, x) for x in v.items}
    return v


if __name__ == '__main__':
    sys.exit(main())
