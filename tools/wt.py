"""scratch worktree of /repo with a stored change applied: at the commit the patch was written against (base.txt next to the patch, default HEAD),
then the later commits of /repo (the fix commits) are brought on top by cherry-pick where that is conflict-free"""
import os
import subprocess
import tempfile


def sh(cmd, cwd=None):
    r = subprocess.run(cmd, shell=True, cwd=cwd, capture_output=True, text=True)
    return r.returncode, r.stdout + r.stderr


def make(src_dir, tag='wt'):
    base = os.environ.get('SEED_BASE')
    bf = os.path.join(src_dir, 'base.txt')
    if not base:
        base = open(bf).read().strip() if os.path.exists(bf) else 'HEAD'
    wt = tempfile.mkdtemp(prefix=f'{tag}_', dir='/tmp')
    os.rmdir(wt)
    rc, out = sh(f'git -C /repo worktree add -q --detach {wt} {base}')
    if rc:
        raise RuntimeError(out)
    info = dict(base=base, applies=False, rebased_over=[])
    rc, out = sh(f'git apply {os.path.join(src_dir, "patch.diff")}', cwd=wt)
    if rc:
        info['apply_error'] = out[-300:]
        return wt, info
    info['applies'] = True
    if base != 'HEAD':
        sh('git -c user.email=v@v -c user.name=v commit -qam seeded-change', cwd=wt)
        for c in sh(f'git -C /repo rev-list --reverse {base}..HEAD')[1].split():
            r2, _ = sh(f'git -c user.email=v@v -c user.name=v cherry-pick {c}', cwd=wt)
            if r2:
                sh('git cherry-pick --abort', cwd=wt)
                info['rebase_conflict'] = c[:7]
                break
            info['rebased_over'].append(c[:7])
    return wt, info


def remove(wt):
    sh(f'git -C /repo worktree remove --force {wt}')
    subprocess.run(['rm', '-rf', wt])
